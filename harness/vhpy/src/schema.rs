//! Schema-driven helpers: oracle facts of an encoding, generator of valid encodings, enumeration and
//! application of the single-position JSON corruptions (an independent re-implementation of
//! JsonDict!AllCorr / Mut: Trace_Json checks every logged (path, class, new value) against the spec).
use crate::pyj::J;
use crate::util::{catch, jbytes};
use rand::rngs::StdRng;
use rand::Rng;
use serde_json::{json, Map, Value};
use std::collections::BTreeMap;

pub struct JSchema {
    pub types: Map<String, Value>,
    pub views: Map<String, Value>,
    pub top: Map<String, Value>,
}

// ---------------------------------------------------------------------------------------------
// oracles: raw blst, clvmr (copied from harness/vh/src/streamable.rs)
// ---------------------------------------------------------------------------------------------
pub fn g1_fact(b: &[u8]) -> (bool, bool) {
    if b.len() != 48 {
        return (false, false);
    }
    unsafe {
        let mut a = std::mem::MaybeUninit::<blst::blst_p1_affine>::uninit();
        if blst::blst_p1_uncompress(a.as_mut_ptr(), b.as_ptr()) != blst::BLST_ERROR::BLST_SUCCESS {
            return (false, false);
        }
        let a = a.assume_init();
        (true, blst::blst_p1_affine_is_inf(&a) || blst::blst_p1_affine_in_g1(&a))
    }
}
pub fn g2_fact(b: &[u8]) -> (bool, bool) {
    if b.len() != 96 {
        return (false, false);
    }
    unsafe {
        let mut a = std::mem::MaybeUninit::<blst::blst_p2_affine>::uninit();
        if blst::blst_p2_uncompress(a.as_mut_ptr(), b.as_ptr()) != blst::BLST_ERROR::BLST_SUCCESS {
            return (false, false);
        }
        let a = a.assume_init();
        (true, blst::blst_p2_affine_is_inf(&a) || blst::blst_p2_affine_in_g2(&a))
    }
}
pub fn prog_len(b: &[u8]) -> u64 {
    catch(|| clvmr::serde::serialized_length_from_bytes(b).unwrap_or(0)).unwrap_or(0)
}
fn prog_len_trusted(b: &[u8]) -> u64 {
    catch(|| clvmr::serde::serialized_length_from_bytes_trusted(b).unwrap_or(0)).unwrap_or(0)
}

#[derive(Default)]
pub struct Facts {
    g1: BTreeMap<usize, (bool, bool)>,
    g2: BTreeMap<usize, (bool, bool)>,
    prog: BTreeMap<usize, (u64, u64)>,
}
impl Facts {
    pub fn to_json(&self) -> Value {
        let pt = |m: &BTreeMap<usize, (bool, bool)>| Value::Array(m.iter().map(|(p, (d, g))| json!([p + 1, *d as u8, *g as u8])).collect());
        json!({"g1": pt(&self.g1), "g2": pt(&self.g2),
               "prog": Value::Array(self.prog.iter().map(|(p, (u, t))| json!([p + 1, u, t])).collect()),
               "qs": []})
    }
}

pub struct Corr {
    pub path: Vec<usize>,       // 1-based indices
    #[allow(dead_code)]
    pub keys: Vec<Vec<u8>>,     // key of every dict step, empty for list steps
    pub cls: &'static str,
    pub nv: Option<J>,          // new value at the end of the path (None: the entry is removed)
    /// (kind of the target type, decoded bytes) when the corrupted string still decodes: JSON-side oracle fact
    pub fact: Option<(&'static str, Vec<u8>)>,
}

pub const CLASSES: [&str; 14] = ["hex_short", "hex_long", "hex_odd", "hex_bad_first", "hex_bad_last", "no0x", "int_2w", "int_m1", "int_minm1",
    "enum_oob", "len_short", "len_long", "key_removed", "null_val"];
fn cls_static(c: &str) -> Option<&'static str> {
    CLASSES.iter().find(|x| **x == c).copied()
}

fn k(t: &Value) -> &str {
    t["k"].as_str().unwrap_or("")
}
fn n(t: &Value) -> usize {
    t["n"].as_u64().unwrap_or(0) as usize
}

impl JSchema {
    pub fn load(path: &str) -> JSchema {
        let v: Value = serde_json::from_str(&std::fs::read_to_string(path).expect("read schema")).expect("schema json");
        let g = |f: &str| v[f].as_object().cloned().unwrap_or_default();
        JSchema { types: g("types"), views: g("views"), top: g("top") }
    }
    fn def<'a>(&'a self, t: &'a Value) -> &'a Value {
        &self.types[t["name"].as_str().unwrap()]
    }
    fn view<'a>(&'a self, t: &'a Value) -> &'a Value {
        &self.views[t["name"].as_str().unwrap()]
    }

    // -----------------------------------------------------------------------------------------
    // wire walker: oracle facts at the positions the grammar asks for (untrusted decoder)
    // -----------------------------------------------------------------------------------------
    pub fn facts(&self, t: &Value, b: &[u8]) -> (Facts, bool) {
        let mut f = Facts::default();
        let r = self.walk(t, b, 0, &mut f);
        (f, r == Some(b.len()))
    }
    fn counted(&self, b: &[u8], pos: usize) -> Option<usize> {
        if pos + 4 > b.len() {
            return None;
        }
        let c = u32::from_be_bytes(b[pos..pos + 4].try_into().unwrap()) as usize;
        if pos + 4 + c > b.len() { None } else { Some(pos + 4 + c) }
    }
    fn point(&self, b: &[u8], pos: usize, g2: bool, f: &mut Facts) -> Option<usize> {
        let w = if g2 { 96 } else { 48 };
        if pos + w > b.len() {
            return None;
        }
        if g2 {
            f.g2.entry(pos).or_insert_with(|| g2_fact(&b[pos..pos + w]));
        } else {
            f.g1.entry(pos).or_insert_with(|| g1_fact(&b[pos..pos + w]));
        }
        Some(pos + w)
    }
    fn prog(&self, b: &[u8], pos: usize, f: &mut Facts) -> Option<usize> {
        if pos > b.len() {
            return None;
        }
        let e = *f.prog.entry(pos).or_insert_with(|| (prog_len(&b[pos..]), prog_len_trusted(&b[pos..])));
        let l = e.0 as usize;
        if l == 0 || pos + l > b.len() { None } else { Some(pos + l) }
    }
    fn walk(&self, t: &Value, b: &[u8], pos: usize, f: &mut Facts) -> Option<usize> {
        let avail = |p: usize, c: usize| p + c <= b.len();
        match k(t) {
            "u" | "i" | "bytesn" => if avail(pos, n(t)) { Some(pos + n(t)) } else { None },
            "bool" => if avail(pos, 1) && b[pos] <= 1 { Some(pos + 1) } else { None },
            "opt" => {
                if !avail(pos, 1) {
                    return None;
                }
                match b[pos] {
                    0 => Some(pos + 1),
                    1 => self.walk(&t["t"], b, pos + 1, f),
                    _ => None,
                }
            }
            "opt2" => {
                if !avail(pos, 1) || b[pos] > 3 {
                    return None;
                }
                let mut q = pos + 1;
                if b[pos] & 1 != 0 {
                    q = self.walk(&t["a"], b, q, f)?;
                }
                if b[pos] & 2 != 0 {
                    q = self.walk(&t["b"], b, q, f)?;
                }
                Some(q)
            }
            "vec" => {
                if !avail(pos, 4) {
                    return None;
                }
                let c = u32::from_be_bytes(b[pos..pos + 4].try_into().unwrap()) as usize;
                let mut q = pos + 4;
                for _ in 0..c {
                    let nq = self.walk(&t["t"], b, q, f)?;
                    if nq == q && c > 4096 {
                        return None;
                    }
                    q = nq;
                }
                Some(q)
            }
            "arr" => {
                let mut q = pos;
                for _ in 0..n(t) {
                    q = self.walk(&t["t"], b, q, f)?;
                }
                Some(q)
            }
            "tup" => {
                let mut q = pos;
                for x in t["ts"].as_array().unwrap() {
                    q = self.walk(x, b, q, f)?;
                }
                Some(q)
            }
            "struct" => {
                let mut q = pos;
                for x in t["fs"].as_array().unwrap() {
                    q = self.walk(&x["t"], b, q, f)?;
                }
                Some(q)
            }
            "bytes" | "str" => self.counted(b, pos),
            "enum" => if avail(pos, 1) && t["vals"].as_array().unwrap().iter().any(|v| v.as_u64() == Some(b[pos] as u64)) { Some(pos + 1) } else { None },
            "g1" => self.point(b, pos, false, f),
            "g2" => self.point(b, pos, true, f),
            "prog" => self.prog(b, pos, f),
            "ref" => self.walk(self.def(t), b, pos, f),
            "block" => {
                let mut q = pos;
                for x in t["fs"].as_array().unwrap() {
                    q = self.walk(&x["t"], b, q, f)?;
                }
                if !avail(q, 1) {
                    return None;
                }
                let p = b[q];
                match p >> 1 {
                    0 => {
                        let mut r = q + 1;
                        if p & 1 != 0 {
                            r = self.prog(b, r, f)?;
                        }
                        self.walk(&json!({"k": "vec", "t": {"k": "u", "n": 4}}), b, r, f)
                    }
                    1 => if p & 1 != 0 { self.counted(b, q + 1) } else { Some(q + 1) },
                    _ => None,
                }
            }
            "pos" => {
                if !avail(pos, 33) {
                    return None;
                }
                let mut q = pos + 32;
                let has_pk = match b[q] {
                    0 => false,
                    1 => true,
                    _ => return None,
                };
                q += 1;
                if has_pk {
                    q = self.point(b, q, false, f)?;
                }
                if !avail(q, 1) {
                    return None;
                }
                let p = b[q];
                q += 1;
                if p & 1 != 0 {
                    if !avail(q, 32) {
                        return None;
                    }
                    q += 32;
                }
                q = self.point(b, q, false, f)?;
                match p >> 1 {
                    0 => if avail(q, 1) { self.counted(b, q + 1) } else { None },
                    1 => if avail(q, 4) { self.counted(b, q + 4) } else { None },
                    _ => None,
                }
            }
            other => panic!("unknown term kind {other}"),
        }
    }

    // -----------------------------------------------------------------------------------------
    // generator of valid encodings
    // -----------------------------------------------------------------------------------------
    pub fn generate(&self, t: &Value, r: &mut StdRng, pools: &Pools, mode: u8, depth: usize, out: &mut Vec<u8>) {
        // mode 0: minimal (None, empty, zero); 1: one of each, maximal ints; 2..: random with boundary bias
        match k(t) {
            "u" | "i" => gen_int(r, n(t), k(t) == "i", mode, out),
            "bool" => out.push(match mode { 0 => 0, 1 => 1, _ => r.random_range(0..2u8) }),
            "opt" => {
                let some = match mode { 0 => false, 1 => true, _ => r.random_range(0..3u8) > 0 };
                out.push(some as u8);
                if some {
                    self.generate(&t["t"], r, pools, mode, depth + 1, out);
                }
            }
            "opt2" => {
                let p = match mode { 0 => 0, 1 => 3, _ => r.random_range(0..4u8) };
                out.push(p);
                if p & 1 != 0 {
                    self.generate(&t["a"], r, pools, mode, depth + 1, out);
                }
                if p & 2 != 0 {
                    self.generate(&t["b"], r, pools, mode, depth + 1, out);
                }
            }
            "vec" => {
                let c: u32 = match mode { 0 => 0, 1 => 1, _ => if depth > 4 { r.random_range(0..2) } else { r.random_range(0..4) } };
                out.extend_from_slice(&c.to_be_bytes());
                for _ in 0..c {
                    self.generate(&t["t"], r, pools, mode, depth + 1, out);
                }
            }
            "arr" => for _ in 0..n(t) {
                self.generate(&t["t"], r, pools, mode, depth + 1, out);
            },
            "tup" => for x in t["ts"].as_array().unwrap() {
                self.generate(x, r, pools, mode, depth + 1, out);
            },
            "struct" => for x in t["fs"].as_array().unwrap() {
                self.generate(&x["t"], r, pools, mode, depth + 1, out);
            },
            "bytesn" => match mode {
                0 => out.extend(std::iter::repeat_n(0u8, n(t))),
                1 => out.extend(std::iter::repeat_n(255u8, n(t))),
                _ => out.extend((0..n(t)).map(|_| r.random::<u8>())),
            },
            "bytes" => {
                let c: u32 = match mode { 0 => 0, 1 => 1, _ => r.random_range(0..6) };
                out.extend_from_slice(&c.to_be_bytes());
                out.extend((0..c).map(|_| r.random::<u8>()));
            }
            "str" => {
                const S: [&str; 7] = ["", "a", "0x", "0x1g", "h\u{e9}llo", "\u{1f600}", "localhost"];
                let s = match mode { 0 => S[0], 1 => S[4], _ => S[r.random_range(0..S.len())] };
                out.extend_from_slice(&(s.len() as u32).to_be_bytes());
                out.extend_from_slice(s.as_bytes());
            }
            "enum" => {
                let vals = t["vals"].as_array().unwrap();
                let i = match mode { 0 => 0, 1 => vals.len() - 1, _ => r.random_range(0..vals.len()) };
                out.push(vals[i].as_u64().unwrap() as u8);
            }
            "g1" => out.extend_from_slice(&pools.g1[match mode { 0 => 0, 1 => 1, _ => r.random_range(0..pools.g1.len()) }]),
            "g2" => out.extend_from_slice(&pools.g2[match mode { 0 => 0, 1 => 1, _ => r.random_range(0..pools.g2.len()) }]),
            "prog" => out.extend_from_slice(&pools.prog[match mode { 0 => 0, 1 => 1, _ => r.random_range(0..pools.prog.len()) }]),
            "ref" => self.generate(self.def(t), r, pools, mode, depth, out),
            "block" => {
                for x in t["fs"].as_array().unwrap() {
                    self.generate(&x["t"], r, pools, mode, depth + 1, out);
                }
                let p = match mode { 0 => 0, 1 => 1, _ => r.random_range(0..4u8) };
                out.push(p);
                if p >> 1 == 0 {
                    if p & 1 != 0 {
                        out.extend_from_slice(&pools.prog[r.random_range(0..pools.prog.len())]);
                    }
                    let c: u32 = match mode { 0 => 0, 1 => 1, _ => r.random_range(0..3) };
                    out.extend_from_slice(&c.to_be_bytes());
                    for _ in 0..c {
                        gen_int(r, 4, false, mode, out);
                    }
                } else if p & 1 != 0 {
                    let c: u32 = r.random_range(0..5);
                    out.extend_from_slice(&c.to_be_bytes());
                    out.extend((0..c).map(|_| r.random::<u8>()));
                }
            }
            "pos" => {
                out.extend((0..32).map(|_| r.random::<u8>()));
                let ver: u8 = match mode { 0 => 0, 1 => 0, _ => r.random_range(0..2) };
                // v1 tolerates both / neither pool field; v2 needs exactly one
                let (pk, cph) = if ver == 1 { if r.random::<bool>() { (true, false) } else { (false, true) } } else { match mode { 0 => (false, false), 1 => (true, true), _ => (r.random(), r.random()) } };
                out.push(pk as u8);
                if pk {
                    out.extend_from_slice(&pools.g1[r.random_range(0..pools.g1.len())]);
                }
                out.push(ver * 2 + cph as u8);
                if cph {
                    out.extend((0..32).map(|_| r.random::<u8>()));
                }
                out.extend_from_slice(&pools.g1[r.random_range(0..pools.g1.len())]);
                if ver == 0 {
                    gen_int(r, 1, false, mode, out);
                } else {
                    gen_int(r, 2, false, mode, out);
                    gen_int(r, 1, false, mode, out);
                    gen_int(r, 1, false, mode, out);
                }
                let c: u32 = match mode { 0 => 0, _ => r.random_range(0..6) };
                out.extend_from_slice(&c.to_be_bytes());
                out.extend((0..c).map(|_| r.random::<u8>()));
            }
            other => panic!("unknown term kind {other}"),
        }
    }

    // -----------------------------------------------------------------------------------------
    // corruptions
    // -----------------------------------------------------------------------------------------
    /// the type that renders j (JsonDict!Eff)
    fn eff<'a>(&'a self, t: &'a Value, j: &J) -> &'a Value {
        match k(t) {
            "opt" => if *j == J::Null { t } else { self.eff(&t["t"], j) },
            "ref" => {
                let d = self.def(t);
                if k(d) == "enum" {
                    d
                } else if self.view(t)["nt"].as_bool().unwrap_or(false) {
                    self.eff(&self.view(t)["jfs"][0]["t"], j)
                } else {
                    t
                }
            }
            _ => t,
        }
    }
    fn is_optional(&self, t: &Value) -> bool {
        match k(t) {
            "opt" => true,
            "ref" => k(self.def(t)) != "enum" && self.view(t)["nt"].as_bool().unwrap_or(false) && self.is_optional(&self.view(t)["jfs"][0]["t"]),
            _ => false,
        }
    }
    /// does from_json_dict of this type accept None? (JsonDict!FromJ(t, JNull).ok)
    fn accepts_null(&self, t: &Value) -> bool {
        match k(t) {
            "opt" => true,
            "ref" => {
                if k(self.def(t)) == "enum" {
                    return false;
                }
                let v = self.view(t);
                if v["nt"].as_bool().unwrap_or(false) {
                    self.accepts_null(&v["jfs"][0]["t"])
                } else {
                    v["jfs"].as_array().map(|a| a.is_empty()).unwrap_or(false)
                }
            }
            _ => false,
        }
    }
    fn leaf_classes(e: &Value, j: &J) -> Vec<&'static str> {
        const HEX6: [&str; 6] = ["hex_short", "hex_long", "hex_odd", "hex_bad_first", "hex_bad_last", "no0x"];
        match k(e) {
            "bytesn" => if n(e) >= 1 { HEX6.to_vec() } else { vec!["hex_long", "no0x"] },
            "g1" | "g2" => HEX6[..5].to_vec(),
            "prog" => HEX6.to_vec(),
            "bytes" => match j {
                J::Str(s) if !s.is_empty() => vec!["hex_odd", "hex_bad_first", "hex_bad_last", "no0x"],
                _ => vec![],
            },
            "u" => vec!["int_2w", "int_m1"],
            "i" => vec!["int_2w", "int_minm1"],
            "enum" => {
                let mut v = vec!["int_2w", "int_m1"];
                if e["vals"].as_array().unwrap().len() < 256 {
                    v.push("enum_oob");
                }
                v
            }
            "tup" => if e["ts"].as_array().unwrap().is_empty() { vec![] } else { vec!["len_short", "len_long"] },
            "arr" => if n(e) == 0 { vec![] } else { vec!["len_short", "len_long"] },
            _ => vec![],
        }
    }
    /// JsonDict!Mut
    fn mutate(e: &Value, j: &J, cls: &str) -> Option<J> {
        let pow = |w: usize, top: u8| {
            let mut v = vec![top];
            v.extend(std::iter::repeat_n(0u8, w));
            v
        };
        Some(match (cls, j) {
            ("hex_short", J::Str(s)) if s.len() >= 2 => J::Str(s[..s.len() - 2].to_vec()),
            ("hex_long", J::Str(s)) => J::Str([&s[..], b"00"].concat()),
            ("hex_odd", J::Str(s)) if !s.is_empty() => J::Str(s[..s.len() - 1].to_vec()),
            ("hex_bad_first", J::Str(s)) if s.len() >= 3 => {
                let mut v = s.clone();
                v[2] = b'g';
                J::Str(v)
            }
            ("hex_bad_last", J::Str(s)) if !s.is_empty() => {
                let mut v = s.clone();
                *v.last_mut().unwrap() = b'g';
                J::Str(v)
            }
            ("no0x", J::Str(s)) if s.len() >= 2 => J::Str(s[2..].to_vec()),
            ("int_2w", _) => match k(e) {
                "i" => J::uint(pow(n(e) - 1, 128)),
                "enum" => J::uint(pow(1, 1)),
                _ => J::uint(pow(n(e), 1)),
            },
            ("int_m1", _) => J::int(true, vec![1]),
            ("int_minm1", _) => {
                let mut v = pow(n(e) - 1, 128);
                *v.last_mut().unwrap() += 1; // 2^(8n-1) + 1 (for n = 1: 129)
                J::int(true, v)
            }
            ("enum_oob", _) => {
                let vals: Vec<u64> = e["vals"].as_array().unwrap().iter().filter_map(|x| x.as_u64()).collect();
                let g = (0..256u64).find(|x| !vals.contains(x))?;
                J::uint(vec![g as u8])
            }
            ("len_short", J::List(l)) if !l.is_empty() => J::List(l[..l.len() - 1].to_vec()),
            ("len_long", J::List(l)) if !l.is_empty() => {
                let mut v = l.clone();
                v.push(l.last().unwrap().clone());
                J::List(v)
            }
            ("null_val", _) => J::Null,
            _ => return None,
        })
    }
    fn fact_of(e: &Value, nv: &J) -> Option<(&'static str, Vec<u8>)> {
        let kind = match k(e) {
            "prog" => "prog",
            "g1" => "g1",
            "g2" => "g2",
            _ => return None,
        };
        let J::Str(s) = nv else { return None };
        let h = if s.starts_with(b"0x") { &s[2..] } else { &s[..] };
        hex::decode(h).ok().map(|b| (kind, b))
    }

    /// every applicable (path, class) of a well-formed JSON value (JsonDict!AllCorr)
    pub fn all_corr(&self, t: &Value, j: &J, path: &mut Vec<usize>, keys: &mut Vec<Vec<u8>>, out: &mut Vec<Corr>) {
        let e = self.eff(t, j);
        for cls in Self::leaf_classes(e, j) {
            if let Some(nv) = Self::mutate(e, j, cls) {
                out.push(Corr { path: path.clone(), keys: keys.clone(), cls, fact: Self::fact_of(e, &nv), nv: Some(nv) });
            }
        }
        match (k(e), j) {
            ("vec" | "arr", J::List(l)) => for (i, x) in l.iter().enumerate() {
                path.push(i + 1);
                keys.push(vec![]);
                self.all_corr(&e["t"], x, path, keys, out);
                path.pop();
                keys.pop();
            },
            ("tup", J::List(l)) => for (i, x) in l.iter().enumerate() {
                if let Some(et) = e["ts"].get(i) {
                    path.push(i + 1);
                    keys.push(vec![]);
                    self.all_corr(et, x, path, keys, out);
                    path.pop();
                    keys.pop();
                }
            },
            ("ref", J::Dict(d)) => {
                let jfs = self.view(e)["jfs"].as_array().unwrap();
                for (i, (key, x)) in d.iter().enumerate() {
                    let Some(f) = jfs.get(i) else { continue };
                    path.push(i + 1);
                    keys.push(key.clone());
                    if !self.is_optional(&f["t"]) {
                        out.push(Corr { path: path.clone(), keys: keys.clone(), cls: "key_removed", nv: None, fact: None });
                    }
                    if !self.accepts_null(&f["t"]) {
                        out.push(Corr { path: path.clone(), keys: keys.clone(), cls: "null_val", nv: Some(J::Null), fact: None });
                    }
                    self.all_corr(&f["t"], x, path, keys, out);
                    path.pop();
                    keys.pop();
                }
            }
            _ => {}
        }
    }

    /// the corruption TLC asked for: locate the target by its path, compute the new value
    pub fn corr_at(&self, t: &Value, j: &J, path: &[usize], cls: &str) -> Option<Corr> {
        let cls = cls_static(cls)?;
        let mut keys = Vec::new();
        let mut t = t;
        let mut j = j;
        let entry = cls == "key_removed" || cls == "null_val";
        for (d, &i) in path.iter().enumerate() {
            let e = self.eff(t, j);
            match (k(e), j) {
                ("vec" | "arr", J::List(l)) => {
                    keys.push(vec![]);
                    t = &e["t"];
                    j = l.get(i - 1)?;
                }
                ("tup", J::List(l)) => {
                    keys.push(vec![]);
                    t = e["ts"].get(i - 1)?;
                    j = l.get(i - 1)?;
                }
                ("ref", J::Dict(dd)) => {
                    let (key, x) = dd.get(i - 1)?;
                    keys.push(key.clone());
                    t = &self.view(e)["jfs"].get(i - 1)?["t"];
                    j = x;
                    if entry && d + 1 == path.len() {
                        return Some(Corr { path: path.to_vec(), keys, cls, nv: if cls == "null_val" { Some(J::Null) } else { None }, fact: None });
                    }
                }
                _ => return None,
            }
        }
        if entry {
            return None;
        }
        let e = self.eff(t, j);
        let nv = Self::mutate(e, j, cls)?;
        Some(Corr { path: path.to_vec(), keys, cls, fact: Self::fact_of(e, &nv), nv: Some(nv) })
    }
}

/// type-agnostic application of a corruption to a JSON value: walk the indices, replace / remove at the end
pub fn apply(j: &J, path: &[usize], nv: &Option<J>) -> Option<J> {
    if path.is_empty() {
        return nv.clone();
    }
    let i = path[0] - 1;
    match j {
        J::List(l) => {
            let mut v = l.clone();
            let sub = apply(v.get(i)?, &path[1..], nv)?;
            v[i] = sub;
            Some(J::List(v))
        }
        J::Dict(d) => {
            let mut v = d.clone();
            if path.len() == 1 && nv.is_none() {
                if i >= v.len() {
                    return None;
                }
                v.remove(i);
            } else {
                let sub = apply(&v.get(i)?.1, &path[1..], nv)?;
                v[i].1 = sub;
            }
            Some(J::Dict(v))
        }
        _ => None,
    }
}

pub struct Pools {
    pub g1: Vec<Vec<u8>>,
    pub g2: Vec<Vec<u8>>,
    pub prog: Vec<Vec<u8>>,
}

fn gen_int(r: &mut StdRng, w: usize, signed: bool, mode: u8, out: &mut Vec<u8>) {
    let mut v = vec![0u8; w];
    let pick = match mode { 0 => 0, 1 => 1, _ => r.random_range(0..8u8) };
    match pick {
        0 => {}
        1 => v.fill(255), // unsigned max / signed -1
        2 => v[w - 1] = 1,
        3 => v[0] = 128, // 2^(8w-1) / signed min
        4 => {
            v.fill(255);
            v[0] = 127; // signed max
        }
        5 => {
            v.fill(255);
            v[w - 1] = 254;
        }
        _ => r.fill(&mut v[..]),
    }
    let _ = signed;
    out.extend_from_slice(&v);
}

pub fn facts_json(jprog: &[(Vec<u8>, u64)], jg1: &[(Vec<u8>, (bool, bool))], jg2: &[(Vec<u8>, (bool, bool))]) -> Value {
    json!({
        "jprog": jprog.iter().map(|(b, l)| json!([jbytes(b), l])).collect::<Vec<_>>(),
        "jg1": jg1.iter().map(|(b, (d, s))| json!([jbytes(b), *d as u8, *s as u8])).collect::<Vec<_>>(),
        "jg2": jg2.iter().map(|(b, (d, s))| json!([jbytes(b), *d as u8, *s as u8])).collect::<Vec<_>>(),
    })
}
