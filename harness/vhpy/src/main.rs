//! C20 harness: the py-bindings build of the chia crates inside an embedded Python interpreter.
//!   vhpy list                               names of the registry
//!   vhpy record --schema <jschema.json> --out <trace.ndjson> [--cases <TLC cases>] [--seed N]
//!               [--gen N] [--arb N] [--own K] [--max-bytes N] [--types a,b,..]
//! One trace event per value: the Streamable encoding, the JSON form produced by to_json_dict (tagged model
//! values), the result of from_json_dict on it, and a list of single-position corruptions with the verdict
//! of from_json_dict on each. Everything is judged by spec/trace/Trace_Json.tla.
#![allow(clippy::too_many_arguments)]
mod pyj;
mod schema;
mod types;
mod util;

use pyj::J;
use pyo3::prelude::*;
use rand::rngs::StdRng;
use rand::Rng;
use schema::{Corr, JSchema, Pools};
use serde_json::{json, Map, Value};
use std::collections::BTreeMap;
use types::{Entry, FromRes};
use util::*;

fn opt_bytes(b: &Option<Vec<u8>>) -> Value {
    jbytes(b.as_deref().unwrap_or(&[]))
}

fn back_json(f: &FromRes) -> Value {
    json!({"r": f.r, "bytes": opt_bytes(&f.bytes), "has_bytes": f.bytes.is_some(), "hash": opt_bytes(&f.hash), "eq": f.eq, "msg": f.msg})
}

#[derive(Default)]
struct Stats {
    by_src: BTreeMap<String, usize>,
    corr_by_class: BTreeMap<String, usize>,
    corr_ok: usize,
    corr_err: usize,
    corr_panic: usize,
    invalid_generated: usize,
    skipped_large: usize,
    unlocated: usize,
    rebuilt_differs: usize,
    walk_failed: usize,
    arb_noncanonical: usize,
}

struct Cx<'a> {
    sch: &'a JSchema,
    own_k: usize,
    max_bytes: usize,
}

fn pools() -> Pools {
    use chia_bls::{sign, SecretKey};
    let mut g1 = vec![{
        let mut v = vec![0u8; 48];
        v[0] = 0xc0;
        v
    }];
    let mut g2 = vec![{
        let mut v = vec![0u8; 96];
        v[0] = 0xc0;
        v
    }];
    for i in 0..6u8 {
        let sk = SecretKey::from_seed(&[i; 32]);
        g1.push(sk.public_key().to_bytes().to_vec());
        g2.push(sign(&sk, [i, 1, 2]).to_bytes().to_vec());
    }
    let _ = SecretKey::from_seed(&[9; 32]).to_bytes();
    let prog = ["80", "01", "ff0180", "ff01ff0280", "83616263", "ffff0101ff02ffff04ffff0101ff0280", "c04001020304050607080910111213141516171819202122232425262728293031323334353637383940414243444546474849505152535455565758596061626364"]
        .iter()
        .map(|h| hex::decode(h).unwrap())
        .collect();
    Pools { g1, g2, prog }
}

/// choose at most k corruptions, every class represented before any class gets a second one
fn sample(mut all: Vec<Corr>, k: usize, r: &mut StdRng) -> Vec<Corr> {
    if all.len() <= k {
        return all;
    }
    for i in (1..all.len()).rev() {
        all.swap(i, r.random_range(0..=i));
    }
    let mut groups: BTreeMap<&'static str, Vec<Corr>> = BTreeMap::new();
    for c in all {
        groups.entry(c.cls).or_default().push(c);
    }
    let mut out = Vec::new();
    while out.len() < k {
        let mut any = false;
        for g in groups.values_mut() {
            if out.len() < k {
                if let Some(c) = g.pop() {
                    out.push(c);
                    any = true;
                }
            }
        }
        if !any {
            break;
        }
    }
    out
}

fn event(py: Python<'_>, cx: &Cx, e: &Entry, b: &[u8], src: &str, tlc_cs: Option<&Value>, r: &mut StdRng, st: &mut Stats) -> Option<Value> {
    let term = cx.sch.top.get(e.name);
    let tr = (e.to_json)(py, b);
    if tr.r == "parse_err" {
        st.invalid_generated += 1;
        if src == "tlc" {
            panic!("TLC case of type {} is not a valid encoding: {} {:?}", e.name, tr.msg, b);
        }
        return None;
    }
    let mut ev = Map::new();
    ev.insert("type".into(), json!(e.name));
    ev.insert("src".into(), json!(src));
    ev.insert("m".into(), json!(term.is_some()));
    ev.insert("bytes".into(), jbytes(b));
    ev.insert("hash".into(), opt_bytes(&tr.hash));
    ev.insert("to".into(), json!(tr.r));
    let Some(obj) = tr.obj else {
        // to_json_dict itself failed on a valid value: recorded, judged by the trace spec
        ev.insert("json".into(), J::Other(tr.msg.clone()).to_trace());
        ev.insert("back".into(), json!({"r": "err", "bytes": [], "has_bytes": false, "hash": [], "eq": false, "msg": "to_json_dict failed"}));
        ev.insert("orc".into(), json!({"g1": [], "g2": [], "prog": [], "qs": []}));
        ev.insert("cs".into(), json!([]));
        ev.insert("rebuilt".into(), json!(true));
        ev.insert("walk".into(), json!(true));
        return Some(Value::Object(ev));
    };
    let obj = obj.bind(py);
    let j = pyj::from_py(obj).unwrap_or_else(|e| J::Other(e.to_string()));
    ev.insert("json".into(), j.to_trace());
    let back = (e.from_json)(py, obj, Some(b));
    ev.insert("back".into(), back_json(&back));
    // the model value rebuilt as a fresh Python object must behave like the original object
    let same = match pyj::to_py(py, &j) {
        Ok(o2) => {
            let rb = (e.from_json)(py, &o2, Some(b));
            rb.r == back.r && rb.bytes == back.bytes && rb.eq == back.eq
        }
        Err(_) => false,
    };
    if !same {
        st.rebuilt_differs += 1;
    }
    ev.insert("rebuilt".into(), json!(same));
    let mut cs_out = Vec::new();
    if let Some(term) = term {
        let (facts, walked) = cx.sch.facts(term, b);
        if !walked {
            st.walk_failed += 1;
        }
        ev.insert("orc".into(), facts.to_json());
        ev.insert("walk".into(), json!(walked));
        let corrs: Vec<Corr> = match tlc_cs {
            Some(list) => {
                let mut v = Vec::new();
                for c in list.as_array().cloned().unwrap_or_default() {
                    let path: Vec<usize> = c["p"].as_array().map(|a| a.iter().map(|x| x.as_u64().unwrap_or(0) as usize).collect()).unwrap_or_default();
                    match cx.sch.corr_at(term, &j, &path, c["c"].as_str().unwrap_or("")) {
                        Some(x) => v.push(x),
                        None => st.unlocated += 1,
                    }
                }
                v
            }
            None => {
                let mut all = Vec::new();
                cx.sch.all_corr(term, &j, &mut vec![], &mut vec![], &mut all);
                let k = if j.size() > 4000 { cx.own_k / 2 } else { cx.own_k };
                sample(all, k, r)
            }
        };
        for c in corrs {
            let Some(cj) = schema::apply(&j, &c.path, &c.nv) else {
                st.unlocated += 1;
                continue;
            };
            let res = match pyj::to_py(py, &cj) {
                Ok(o2) => (e.from_json)(py, &o2, Some(b)),
                Err(e) => FromRes { r: "tool", bytes: None, hash: None, eq: false, msg: e.to_string() },
            };
            *st.corr_by_class.entry(c.cls.to_string()).or_default() += 1;
            match res.r {
                "ok" => st.corr_ok += 1,
                "panic" => st.corr_panic += 1,
                _ => st.corr_err += 1,
            }
            let (mut jp, mut j1, mut j2) = (vec![], vec![], vec![]);
            if let Some((kind, bytes)) = &c.fact {
                match *kind {
                    "prog" => jp.push((bytes.clone(), schema::prog_len(bytes))),
                    "g1" => j1.push((bytes.clone(), schema::g1_fact(bytes))),
                    _ => j2.push((bytes.clone(), schema::g2_fact(bytes))),
                }
            }
            let mut co = json!({"p": c.path, "c": c.cls, "nv": match &c.nv { Some(x) => x.to_trace(), None => json!({"k": "none"}) }, "r": res.r});
            if c.fact.is_some() {
                co["f"] = schema::facts_json(&jp, &j1, &j2);
            }
            if res.r == "ok" {
                co["back"] = opt_bytes(&res.bytes);
            }
            cs_out.push(co);
        }
    } else {
        ev.insert("orc".into(), json!({"g1": [], "g2": [], "prog": [], "qs": []}));
        ev.insert("walk".into(), json!(true));
    }
    ev.insert("cs".into(), Value::Array(cs_out));
    *st.by_src.entry(src.to_string()).or_default() += 1;
    Some(Value::Object(ev))
}

/// round trip of a raw `arbitrary` value that is not the decoding of its own encoding (or has none)
fn raw_event(py: Python<'_>, e: &Entry, a: &types::ArbRes) -> Value {
    let j = match &a.obj {
        Some(o) => pyj::from_py(o.bind(py)).unwrap_or_else(|e| J::Other(e.to_string())),
        None => J::Other("to_json_dict failed".into()),
    };
    json!({"type": e.name, "src": "raw", "m": false, "bytes": opt_bytes(&a.bytes), "hash": opt_bytes(&a.hash), "to": if a.obj.is_some() { "ok" } else { "err" },
           "json": j.to_trace(), "back": back_json(&a.back), "orc": {"g1": [], "g2": [], "prog": [], "qs": []}, "cs": [], "rebuilt": true, "walk": true})
}

fn unmodelled_values(name: &str, r: &mut StdRng) -> Vec<Vec<u8>> {
    use chia_bls::{sign, SecretKey};
    let mut out = Vec::new();
    for _ in 0..4 {
        let seed: [u8; 32] = r.random();
        let sk = SecretKey::from_seed(&seed);
        match name {
            "SecretKey" => out.push(sk.to_bytes().to_vec()),
            "GTElement" => out.push(sign(&sk, b"m").pair(&sk.public_key()).to_bytes().to_vec()),
            _ => {}
        }
    }
    out
}

fn record(args: &Args) {
    let sch = JSchema::load(args.req("schema"));
    let mut out = Out::create(args.req("out"));
    let seed = args.u64("seed", 1);
    let mut r = rng(seed ^ 0xC20);
    let n_gen = args.u64("gen", 4) as usize;
    let n_arb = args.u64("arb", 4) as usize;
    let cx = Cx { sch: &sch, own_k: args.u64("own", 24) as usize, max_bytes: args.u64("max-bytes", 12000) as usize };
    let only: Option<Vec<String>> = args.get("types").map(|s| s.split('|').map(|x| x.to_string()).collect());
    let reg = types::registry();
    let pools = pools();
    let mut st = Stats::default();
    let mut types_seen = std::collections::BTreeSet::new();
    Python::initialize();
    Python::attach(|py| {
        // (1) TLC cases
        if let Some(p) = args.get("cases") {
            let every = args.u64("case-every", 1) as usize;
            for (i, c) in read_ndjson(p).iter().enumerate() {
                let name = c["type"].as_str().unwrap_or("");
                if let Some(o) = &only {
                    if !o.iter().any(|x| x == name) {
                        continue;
                    }
                }
                if every > 1 && (i + seed as usize) % every != 0 {
                    continue;
                }
                let Some(e) = reg.iter().find(|e| e.name == name) else { panic!("TLC case for a type outside the registry: {name}") };
                let b = from_jbytes(&c["bytes"]);
                if let Some(ev) = event(py, &cx, e, &b, "tlc", Some(&c["cs"]), &mut r, &mut st) {
                    types_seen.insert(e.name);
                    out.emit(&ev);
                }
            }
        }
        // (2) schema-generated and arbitrary values, the harness's own enumeration of corruptions
        for e in &reg {
            if let Some(o) = &only {
                if !o.iter().any(|x| x == e.name) {
                    continue;
                }
            }
            if let Some(term) = sch.top.get(e.name) {
                for i in 0..(2 + n_gen) {
                    let mode = if i < 2 { i as u8 } else { 2 };
                    let mut b = Vec::new();
                    sch.generate(term, &mut r, &pools, mode, 0, &mut b);
                    if b.len() > cx.max_bytes {
                        st.skipped_large += 1;
                        continue;
                    }
                    let src = match mode { 0 => "min", 1 => "max", _ => "gen" };
                    if let Some(ev) = event(py, &cx, e, &b, src, None, &mut r, &mut st) {
                        types_seen.insert(e.name);
                        out.emit(&ev);
                    }
                }
            } else {
                for b in unmodelled_values(e.name, &mut r) {
                    if let Some(ev) = event(py, &cx, e, &b, "leaf", None, &mut r, &mut st) {
                        types_seen.insert(e.name);
                        out.emit(&ev);
                    }
                }
            }
            if let Some(arb) = e.arb {
                for _ in 0..n_arb {
                    let len = r.random_range(16..1500);
                    let mut data = vec![0u8; len];
                    r.fill(&mut data[..]);
                    // `arbitrary` draws lengths from the end of the buffer: keep collections small
                    if r.random_range(0..3) > 0 {
                        for x in data.iter_mut().rev().take(64) {
                            *x &= 3;
                        }
                    }
                    let Some(a) = arb(py, &data) else { continue };
                    match &a.canonical {
                        Some(b) if b.len() <= cx.max_bytes => {
                            if let Some(ev) = event(py, &cx, e, b, "arb", None, &mut r, &mut st) {
                                types_seen.insert(e.name);
                                out.emit(&ev);
                            }
                        }
                        Some(_) => st.skipped_large += 1,
                        None => {
                            st.arb_noncanonical += 1;
                            if a.bytes.as_ref().map(|b| b.len()).unwrap_or(0) <= cx.max_bytes {
                                out.emit(&raw_event(py, e, &a));
                                *st.by_src.entry("raw".into()).or_default() += 1;
                            }
                        }
                    }
                }
            }
        }
    });
    let n = out.finish();
    println!(
        "{}",
        json!({"events": n, "by_src": st.by_src, "corr_by_class": st.corr_by_class, "corr_ok": st.corr_ok, "corr_err": st.corr_err, "corr_panic": st.corr_panic,
               "invalid_generated": st.invalid_generated, "skipped_large": st.skipped_large, "unlocated": st.unlocated, "rebuilt_differs": st.rebuilt_differs,
               "walk_failed": st.walk_failed, "arb_noncanonical": st.arb_noncanonical, "types": types_seen.len(), "registry": reg.len()})
    );
}

fn main() {
    let argv: Vec<String> = std::env::args().collect();
    if argv.len() < 2 {
        eprintln!("usage: vhpy <list|record> [--key value ...]");
        std::process::exit(2);
    }
    std::panic::set_hook(Box::new(|info| {
        if !util::QUIET.with(|q| q.get()) {
            eprintln!("harness panic: {info}");
        }
    }));
    let args = Args::parse(&argv[2..]);
    match argv[1].as_str() {
        "list" => {
            for e in types::registry() {
                println!("{}", e.name);
            }
        }
        "record" => {
            let h = std::thread::Builder::new().stack_size(1 << 30).spawn(move || record(&args)).expect("spawn");
            if h.join().is_err() {
                std::process::exit(101);
            }
        }
        other => {
            eprintln!("unknown mode {other}");
            std::process::exit(2);
        }
    }
}
