fn main() { println!("vhpy"); }
