//! growth item X02, py-bindings half: ip_sub_slot_total_iters / sp_sub_slot_total_iters / sp_total_iters
//! (and the sp_iters / ip_iters / is_challenge_block / is_transaction_block / first_in_sub_slot wrappers)
//! exist only as pymethods of BlockRecord, so they are called the way chia-blockchain calls them: on a
//! Python BlockRecord object with a constants object carrying NUM_SPS_SUB_SLOT, NUM_SP_INTERVALS_EXTRA and
//! MIN_BLOCKS_PER_CHALLENGE_BLOCK, inside an embedded interpreter.
//!   vhpy_blockrecord blockrecord --cases <inputs.ndjson> --out <trace.ndjson>
//! The inputs are the file written by `vh_blockrecord --inputs-out` (TLC lattice points + seeded random
//! inputs). One event per input; Python exceptions and panics are data; the verdict is TLC's.
#![allow(dead_code)]
#[path = "../util.rs"]
mod util;

use chia_protocol::{BlockRecord, Bytes32, ClassgroupElement};
use pyo3::prelude::*;
use pyo3::types::PyDict;
use serde_json::{json, Value};
use util::*;

fn bignat_u128(v: u128) -> Value {
    let b = v.to_be_bytes();
    let s = b.iter().position(|x| *x != 0).unwrap_or(16);
    jbytes(&b[s..])
}

fn bignat_to_u128(v: &Value) -> u128 {
    from_jbytes(v).iter().fold(0u128, |r, x| (r << 8) | *x as u128)
}

struct Inp {
    n: u8,
    extra: u8,
    idx: u8,
    ssi: u64,
    req: u64,
    total: u128,
    overflow: bool,
}

fn block_record(i: &Inp, deficit: u8, has_ts: bool, has_fcs: bool) -> BlockRecord {
    let z = Bytes32::default();
    BlockRecord::new(
        z,
        z,
        7,
        1000,
        i.total,
        i.idx,
        ClassgroupElement::default(),
        None,
        z,
        z,
        i.ssi,
        z,
        z,
        i.req,
        deficit,
        i.overflow,
        3,
        if has_ts { Some(1_700_000_000) } else { None },
        if has_ts { Some(z) } else { None },
        if has_ts { Some(0) } else { None },
        if has_ts { Some(vec![]) } else { None },
        if has_fcs { Some(vec![z]) } else { None },
        if has_fcs { Some(vec![]) } else { None },
        if has_fcs { Some(vec![z]) } else { None },
        None,
    )
}

fn constants<'py>(py: Python<'py>, n: u8, extra: u8, minb: u8) -> Bound<'py, PyAny> {
    let kw = PyDict::new(py);
    kw.set_item("NUM_SPS_SUB_SLOT", n).unwrap();
    kw.set_item("NUM_SP_INTERVALS_EXTRA", extra).unwrap();
    kw.set_item("MIN_BLOCKS_PER_CHALLENGE_BLOCK", minb).unwrap();
    py.import("types").unwrap().getattr("SimpleNamespace").unwrap().call((), Some(&kw)).unwrap()
}

fn perr(py: Python<'_>, e: &PyErr) -> Value {
    if e.is_instance_of::<pyo3::panic::PanicException>(py) {
        json!({"k": "panic", "m": e.to_string()})
    } else {
        json!({"k": "err", "e": e.to_string()})
    }
}

/// call obj.<name>(consts) and render the result with f
fn call<'py, T: for<'a> FromPyObject<'a, 'py>>(py: Python<'py>, obj: &Bound<'py, PyAny>, name: &str, consts: &Bound<'py, PyAny>, f: impl Fn(T) -> Value) -> Value {
    match catch(|| obj.call_method1(name, (consts.clone(),))) {
        Err(p) => json!({"k": "panic", "m": p}),
        Ok(Err(e)) => perr(py, &e),
        Ok(Ok(v)) => match v.extract::<T>() {
            Ok(x) => json!({"k": "ok", "v": f(x)}),
            Err(_) => json!({"k": "badtype", "repr": format!("{v:?}")}),
        },
    }
}

fn record(args: &Args) {
    let mut out = Out::create(args.req("out"));
    let cases = read_ndjson(args.req("cases"));
    Python::initialize();
    Python::attach(|py| {
        for c in &cases {
            match c["k"].as_str().unwrap_or("") {
                "iters" => {
                    let i = Inp {
                        n: c["n"].as_u64().expect("n") as u8,
                        extra: c["extra"].as_u64().expect("extra") as u8,
                        idx: c["idx"].as_u64().expect("idx") as u8,
                        ssi: bignat_to_u128(&c["ssi"]) as u64,
                        req: bignat_to_u128(&c["req"]) as u64,
                        total: bignat_to_u128(&c["total"]),
                        overflow: c["overflow"].as_bool().expect("overflow"),
                    };
                    let obj = Py::new(py, block_record(&i, 0, false, false)).expect("pyclass");
                    let b = obj.bind(py).as_any();
                    let k = constants(py, i.n, i.extra, 16);
                    let mut e = c.clone();
                    let m = e.as_object_mut().unwrap();
                    m.insert("k".into(), json!("pyiters"));
                    m.insert("py_sp".into(), call::<u64>(py, b, "sp_iters", &k, |v| bignat_u128(v as u128)));
                    m.insert("py_ip".into(), call::<u64>(py, b, "ip_iters", &k, |v| bignat_u128(v as u128)));
                    m.insert("ipsub".into(), call::<u128>(py, b, "ip_sub_slot_total_iters", &k, bignat_u128));
                    m.insert("spsub".into(), call::<u128>(py, b, "sp_sub_slot_total_iters", &k, bignat_u128));
                    m.insert("sptot".into(), call::<u128>(py, b, "sp_total_iters", &k, bignat_u128));
                    out.emit(&e);
                }
                "chal" => {
                    let (d, minb) = (c["deficit"].as_u64().unwrap() as u8, c["minb"].as_u64().unwrap() as u8);
                    let i = Inp { n: 64, extra: 3, idx: 0, ssi: 1 << 27, req: 1, total: 1 << 30, overflow: false };
                    let obj = Py::new(py, block_record(&i, d, false, false)).expect("pyclass");
                    let k = constants(py, 64, 3, minb);
                    let r = call::<bool>(py, obj.bind(py).as_any(), "is_challenge_block", &k, |v| json!(v));
                    out.emit(&json!({"k": "pychal", "deficit": d, "minb": minb, "r": r}));
                }
                "flags" => {
                    let (ts, fcs) = (c["has_ts"].as_bool().unwrap(), c["has_fcs"].as_bool().unwrap());
                    let i = Inp { n: 64, extra: 3, idx: 0, ssi: 1 << 27, req: 1, total: 1 << 30, overflow: false };
                    let obj = Py::new(py, block_record(&i, 0, ts, fcs)).expect("pyclass");
                    let b = obj.bind(py);
                    let g = |name: &str| b.getattr(name).and_then(|v| v.extract::<bool>()).map(|v| json!(v)).unwrap_or(json!("error"));
                    out.emit(&json!({"k": "pyflags", "has_ts": ts, "has_fcs": fcs, "is_tx": g("is_transaction_block"), "first": g("first_in_sub_slot")}));
                }
                other => panic!("unknown case kind {other}"),
            }
        }
    });
    let n = out.finish();
    println!("{}", json!({"events": n}));
}

fn main() {
    let argv: Vec<String> = std::env::args().collect();
    if argv.len() < 2 {
        eprintln!("usage: vhpy_blockrecord blockrecord --cases <inputs> --out <trace>");
        std::process::exit(2);
    }
    std::panic::set_hook(Box::new(|info| {
        if !util::QUIET.with(|q| q.get()) {
            eprintln!("harness panic: {info}");
        }
    }));
    let args = Args::parse(&argv[2..]);
    record(&args);
}
