//! argv / ndjson / panic plumbing (copied from harness/vh/src/util.rs: the packages share no modules)
use rand::rngs::StdRng;
use rand::SeedableRng;
use serde_json::{json, Value};
use std::io::{BufRead, BufWriter, Write};

pub fn jbytes(b: &[u8]) -> Value {
    Value::Array(b.iter().map(|x| json!(*x)).collect())
}

pub fn from_jbytes(v: &Value) -> Vec<u8> {
    v.as_array().map(|a| a.iter().map(|x| x.as_u64().unwrap_or(0) as u8).collect()).unwrap_or_default()
}

pub fn rng(seed: u64) -> StdRng {
    StdRng::seed_from_u64(seed)
}

pub struct Out {
    w: BufWriter<std::fs::File>,
    pub n: usize,
}

impl Out {
    pub fn create(path: &str) -> Out {
        Out { w: BufWriter::new(std::fs::File::create(path).expect("create trace file")), n: 0 }
    }
    pub fn emit(&mut self, v: &Value) {
        serde_json::to_writer(&mut self.w, v).expect("write");
        self.w.write_all(b"\n").expect("write");
        self.n += 1;
    }
    pub fn finish(mut self) -> usize {
        self.w.flush().expect("flush");
        self.n
    }
}

pub fn read_ndjson(path: &str) -> Vec<Value> {
    let f = std::io::BufReader::new(std::fs::File::open(path).expect("open cases"));
    f.lines().map(|l| l.expect("read")).filter(|l| !l.trim().is_empty()).map(|l| serde_json::from_str(&l).expect("json")).collect()
}

#[derive(Clone)]
pub struct Args {
    kv: Vec<(String, String)>,
}

impl Args {
    pub fn parse(a: &[String]) -> Args {
        let mut kv = Vec::new();
        let mut i = 0;
        while i < a.len() {
            if let Some(k) = a[i].strip_prefix("--") {
                let v = a.get(i + 1).cloned().unwrap_or_default();
                kv.push((k.to_string(), v));
                i += 2;
            } else {
                i += 1;
            }
        }
        Args { kv }
    }
    pub fn get(&self, k: &str) -> Option<&str> {
        self.kv.iter().find(|(a, _)| a == k).map(|(_, v)| v.as_str())
    }
    pub fn u64(&self, k: &str, d: u64) -> u64 {
        self.get(k).and_then(|v| v.parse().ok()).unwrap_or(d)
    }
    pub fn req(&self, k: &str) -> &str {
        self.get(k).unwrap_or_else(|| panic!("missing --{k}"))
    }
}

thread_local! {
    pub static QUIET: std::cell::Cell<bool> = const { std::cell::Cell::new(false) };
}

/// run a closure, turning a panic into data
pub fn catch<T>(f: impl FnOnce() -> T) -> Result<T, String> {
    QUIET.with(|q| q.set(true));
    let r = std::panic::catch_unwind(std::panic::AssertUnwindSafe(f));
    QUIET.with(|q| q.set(false));
    r.map_err(|e| {
        if let Some(s) = e.downcast_ref::<String>() {
            s.clone()
        } else if let Some(s) = e.downcast_ref::<&str>() {
            (*s).to_string()
        } else {
            "panic".to_string()
        }
    })
}
