//! C20: the concrete Rust type registry of the Python-linked harness. One line per class that has
//! ToJsonDict + FromJsonDict; the string is the name under which tools/schema.py knows the type (a
//! Rust type expression for combinator instances). The list is copied from
//! harness/vh/src/streamable_types.rs (C13) minus the types without a JSON form (`()`, 4-tuples,
//! chia_datalayer::NodeType / NodeMetadata) and minus `Option<Option<bool>>` (not a field type of any
//! exported class; Some(None) has no JSON form of its own). A type that disappears upstream makes
//! this file fail to compile: that is a tool error, not a violation.
use crate::util::catch;
use arbitrary::{Arbitrary, Unstructured};
use chia_bls::{G1Element, G2Element, GTElement, SecretKey};
use chia_protocol::*;
use chia_traits::from_json_dict::FromJsonDict;
use chia_traits::to_json_dict::ToJsonDict;
use chia_traits::Streamable;
use pyo3::prelude::*;
use std::fmt::Debug;

pub struct ToRes {
    /// "ok" | "parse_err" | "err" | "panic"
    pub r: &'static str,
    pub obj: Option<Py<PyAny>>,
    pub hash: Option<Vec<u8>>,
    pub msg: String,
}

pub struct FromRes {
    /// "ok" | "err" | "panic"
    pub r: &'static str,
    pub bytes: Option<Vec<u8>>,
    pub hash: Option<Vec<u8>>,
    pub eq: bool,
    pub msg: String,
}

pub struct ArbRes {
    /// encoding of the value if it survives to_bytes / from_bytes unchanged
    pub canonical: Option<Vec<u8>>,
    /// JSON round trip of the raw value (also for values that have no wire form)
    pub obj: Option<Py<PyAny>>,
    pub bytes: Option<Vec<u8>>,
    pub hash: Option<Vec<u8>>,
    pub back: FromRes,
}

pub struct Entry {
    pub name: &'static str,
    pub to_json: fn(Python<'_>, &[u8]) -> ToRes,
    pub from_json: fn(Python<'_>, &Bound<'_, PyAny>, Option<&[u8]>) -> FromRes,
    pub arb: Option<fn(Python<'_>, &[u8]) -> Option<ArbRes>>,
}

fn hash_of<T: Streamable>(v: &T) -> Option<Vec<u8>> {
    catch(|| v.hash().to_vec()).ok()
}

pub fn to_json<T: Streamable + ToJsonDict>(py: Python<'_>, b: &[u8]) -> ToRes {
    let v = match catch(|| T::from_bytes(b)) {
        Ok(Ok(v)) => v,
        Ok(Err(e)) => return ToRes { r: "parse_err", obj: None, hash: None, msg: format!("{e:?}") },
        Err(p) => return ToRes { r: "panic", obj: None, hash: None, msg: p },
    };
    let hash = hash_of(&v);
    match catch(|| ToJsonDict::to_json_dict(&v, py)) {
        Ok(Ok(o)) => ToRes { r: "ok", obj: Some(o), hash, msg: String::new() },
        Ok(Err(e)) => ToRes { r: "err", obj: None, hash, msg: e.to_string() },
        Err(p) => ToRes { r: "panic", obj: None, hash, msg: p },
    }
}

fn back_of<T: Streamable + FromJsonDict + PartialEq>(o: &Bound<'_, PyAny>, orig: Option<&T>) -> FromRes {
    match catch(|| <T as FromJsonDict>::from_json_dict(o)) {
        Ok(Ok(v)) => {
            let bytes = catch(|| v.to_bytes().ok()).ok().flatten();
            let hash = hash_of(&v);
            let eq = orig.map(|x| catch(|| *x == v).unwrap_or(false)).unwrap_or(false);
            FromRes { r: "ok", bytes, hash, eq, msg: String::new() }
        }
        Ok(Err(e)) => {
            let mut m = e.to_string();
            m.truncate(120);
            FromRes { r: "err", bytes: None, hash: None, eq: false, msg: m }
        }
        Err(p) => FromRes { r: "panic", bytes: None, hash: None, eq: false, msg: p },
    }
}

pub fn from_json<T: Streamable + FromJsonDict + PartialEq>(_py: Python<'_>, o: &Bound<'_, PyAny>, orig: Option<&[u8]>) -> FromRes {
    let v0 = orig.and_then(|b| catch(|| T::from_bytes(b).ok()).ok().flatten());
    back_of::<T>(o, v0.as_ref())
}

pub fn arb<T: for<'a> Arbitrary<'a> + Streamable + ToJsonDict + FromJsonDict + PartialEq + Debug>(py: Python<'_>, data: &[u8]) -> Option<ArbRes> {
    let v = catch(|| T::arbitrary(&mut Unstructured::new(data)).ok()).ok().flatten()?;
    let bytes = catch(|| v.to_bytes().ok()).ok().flatten();
    let canonical = bytes.as_ref().and_then(|b| match catch(|| T::from_bytes(b)) {
        Ok(Ok(w)) if w == v => Some(b.clone()),
        _ => None,
    });
    let hash = hash_of(&v);
    let obj = catch(|| ToJsonDict::to_json_dict(&v, py).ok()).ok().flatten();
    let back = match &obj {
        Some(o) => back_of::<T>(o.bind(py), Some(&v)),
        None => FromRes { r: "err", bytes: None, hash: None, eq: false, msg: "to_json_dict failed".into() },
    };
    Some(ArbRes { canonical, obj, bytes, hash, back })
}

macro_rules! reg {
    ($v:ident, $t:ty, $name:expr) => {
        $v.push(Entry { name: $name, to_json: to_json::<$t>, from_json: from_json::<$t>, arb: None });
    };
}
macro_rules! reg_arb {
    ($v:ident, $t:ty, $name:expr) => {
        $v.push(Entry { name: $name, to_json: to_json::<$t>, from_json: from_json::<$t>, arb: Some(arb::<$t>) });
    };
}

pub fn registry() -> Vec<Entry> {
    let mut v: Vec<Entry> = Vec::new();
    reg_arb!(v, BlockRecord, "BlockRecord");
    reg_arb!(v, ChallengeBlockInfo, "ChallengeBlockInfo");
    reg_arb!(v, ChallengeChainSubSlot, "ChallengeChainSubSlot");
    reg_arb!(v, ClassgroupElement, "ClassgroupElement");
    reg_arb!(v, Coin, "Coin");
    reg_arb!(v, CoinRecord, "CoinRecord");
    reg_arb!(v, CoinSpend, "CoinSpend");
    reg_arb!(v, CoinState, "CoinState");
    reg_arb!(v, CoinStateFilters, "CoinStateFilters");
    reg_arb!(v, CoinStateUpdate, "CoinStateUpdate");
    reg_arb!(v, EndOfSubSlotBundle, "EndOfSubSlotBundle");
    reg_arb!(v, FeeEstimate, "FeeEstimate");
    reg_arb!(v, FeeEstimateGroup, "FeeEstimateGroup");
    reg_arb!(v, FeeRate, "FeeRate");
    reg_arb!(v, Foliage, "Foliage");
    reg_arb!(v, FoliageBlockData, "FoliageBlockData");
    reg_arb!(v, FoliageTransactionBlock, "FoliageTransactionBlock");
    reg_arb!(v, FullBlock, "FullBlock");
    reg_arb!(v, Handshake, "Handshake");
    reg_arb!(v, HeaderBlock, "HeaderBlock");
    reg_arb!(v, InfusedChallengeChainSubSlot, "InfusedChallengeChainSubSlot");
    reg_arb!(v, MempoolItemsAdded, "MempoolItemsAdded");
    reg_arb!(v, MempoolItemsRemoved, "MempoolItemsRemoved");
    reg_arb!(v, MempoolRemoveReason, "MempoolRemoveReason");
    reg_arb!(v, Message, "Message");
    reg_arb!(v, NewCompactVDF, "NewCompactVDF");
    reg_arb!(v, NewPeak, "NewPeak");
    reg_arb!(v, NewPeakWallet, "NewPeakWallet");
    reg_arb!(v, NewSignagePointOrEndOfSubSlot, "NewSignagePointOrEndOfSubSlot");
    reg_arb!(v, NewTransaction, "NewTransaction");
    reg_arb!(v, NewUnfinishedBlock, "NewUnfinishedBlock");
    reg_arb!(v, NewUnfinishedBlock2, "NewUnfinishedBlock2");
    reg_arb!(v, NodeType, "NodeType");
    reg_arb!(v, PartialProof, "PartialProof");
    reg_arb!(v, PoolTarget, "PoolTarget");
    reg_arb!(v, ProofBlockHeader, "ProofBlockHeader");
    reg_arb!(v, ProofOfSpace, "ProofOfSpace");
    reg_arb!(v, ProtocolMessageTypes, "ProtocolMessageTypes");
    reg_arb!(v, PuzzleSolutionResponse, "PuzzleSolutionResponse");
    reg_arb!(v, RecentChainData, "RecentChainData");
    reg_arb!(v, RegisterForCoinUpdates, "RegisterForCoinUpdates");
    reg_arb!(v, RegisterForPhUpdates, "RegisterForPhUpdates");
    reg_arb!(v, RejectAdditionsRequest, "RejectAdditionsRequest");
    reg_arb!(v, RejectBlock, "RejectBlock");
    reg_arb!(v, RejectBlockHeaders, "RejectBlockHeaders");
    reg_arb!(v, RejectBlocks, "RejectBlocks");
    reg_arb!(v, RejectCoinState, "RejectCoinState");
    reg_arb!(v, RejectHeaderBlocks, "RejectHeaderBlocks");
    reg_arb!(v, RejectHeaderRequest, "RejectHeaderRequest");
    reg_arb!(v, RejectPuzzleSolution, "RejectPuzzleSolution");
    reg_arb!(v, RejectPuzzleState, "RejectPuzzleState");
    reg_arb!(v, RejectRemovalsRequest, "RejectRemovalsRequest");
    reg_arb!(v, RejectStateReason, "RejectStateReason");
    reg_arb!(v, RemovedMempoolItem, "RemovedMempoolItem");
    reg_arb!(v, RequestAdditions, "RequestAdditions");
    reg_arb!(v, RequestBlock, "RequestBlock");
    reg_arb!(v, RequestBlockHeader, "RequestBlockHeader");
    reg_arb!(v, RequestBlockHeaders, "RequestBlockHeaders");
    reg_arb!(v, RequestBlocks, "RequestBlocks");
    reg_arb!(v, RequestChildren, "RequestChildren");
    reg_arb!(v, RequestCoinState, "RequestCoinState");
    reg_arb!(v, RequestCompactVDF, "RequestCompactVDF");
    reg_arb!(v, RequestCostInfo, "RequestCostInfo");
    reg_arb!(v, RequestFeeEstimates, "RequestFeeEstimates");
    reg_arb!(v, RequestHeaderBlocks, "RequestHeaderBlocks");
    reg_arb!(v, RequestMempoolTransactions, "RequestMempoolTransactions");
    reg_arb!(v, RequestPeers, "RequestPeers");
    reg_arb!(v, RequestProofOfWeight, "RequestProofOfWeight");
    reg_arb!(v, RequestPuzzleSolution, "RequestPuzzleSolution");
    reg_arb!(v, RequestPuzzleState, "RequestPuzzleState");
    reg_arb!(v, RequestRemovals, "RequestRemovals");
    reg_arb!(v, RequestRemoveCoinSubscriptions, "RequestRemoveCoinSubscriptions");
    reg_arb!(v, RequestRemovePuzzleSubscriptions, "RequestRemovePuzzleSubscriptions");
    reg_arb!(v, RequestSesInfo, "RequestSesInfo");
    reg_arb!(v, RequestSignagePointOrEndOfSubSlot, "RequestSignagePointOrEndOfSubSlot");
    reg_arb!(v, RequestTransaction, "RequestTransaction");
    reg_arb!(v, RequestUnfinishedBlock, "RequestUnfinishedBlock");
    reg_arb!(v, RequestUnfinishedBlock2, "RequestUnfinishedBlock2");
    reg_arb!(v, RespondAdditions, "RespondAdditions");
    reg_arb!(v, RespondBlock, "RespondBlock");
    reg_arb!(v, RespondBlockHeader, "RespondBlockHeader");
    reg_arb!(v, RespondBlockHeaders, "RespondBlockHeaders");
    reg_arb!(v, RespondBlocks, "RespondBlocks");
    reg_arb!(v, RespondChildren, "RespondChildren");
    reg_arb!(v, RespondCoinState, "RespondCoinState");
    reg_arb!(v, RespondCompactVDF, "RespondCompactVDF");
    reg_arb!(v, RespondCostInfo, "RespondCostInfo");
    reg_arb!(v, RespondEndOfSubSlot, "RespondEndOfSubSlot");
    reg_arb!(v, RespondFeeEstimates, "RespondFeeEstimates");
    reg_arb!(v, RespondHeaderBlocks, "RespondHeaderBlocks");
    reg_arb!(v, RespondPeers, "RespondPeers");
    reg_arb!(v, RespondProofOfWeight, "RespondProofOfWeight");
    reg_arb!(v, RespondPuzzleSolution, "RespondPuzzleSolution");
    reg_arb!(v, RespondPuzzleState, "RespondPuzzleState");
    reg_arb!(v, RespondRemovals, "RespondRemovals");
    reg_arb!(v, RespondRemoveCoinSubscriptions, "RespondRemoveCoinSubscriptions");
    reg_arb!(v, RespondRemovePuzzleSubscriptions, "RespondRemovePuzzleSubscriptions");
    reg_arb!(v, RespondSesInfo, "RespondSesInfo");
    reg_arb!(v, RespondSignagePoint, "RespondSignagePoint");
    reg_arb!(v, RespondToCoinUpdates, "RespondToCoinUpdates");
    reg_arb!(v, RespondToPhUpdates, "RespondToPhUpdates");
    reg_arb!(v, RespondTransaction, "RespondTransaction");
    reg_arb!(v, RespondUnfinishedBlock, "RespondUnfinishedBlock");
    reg_arb!(v, RewardChainBlock, "RewardChainBlock");
    reg_arb!(v, RewardChainBlockUnfinished, "RewardChainBlockUnfinished");
    reg_arb!(v, RewardChainSubSlot, "RewardChainSubSlot");
    reg_arb!(v, SendTransaction, "SendTransaction");
    reg_arb!(v, SpendBundle, "SpendBundle");
    reg_arb!(v, SubEpochChallengeSegment, "SubEpochChallengeSegment");
    reg_arb!(v, SubEpochData, "SubEpochData");
    reg_arb!(v, SubEpochSegments, "SubEpochSegments");
    reg_arb!(v, SubEpochSummary, "SubEpochSummary");
    reg_arb!(v, SubSlotData, "SubSlotData");
    reg_arb!(v, SubSlotProofs, "SubSlotProofs");
    reg_arb!(v, TimestampedPeerInfo, "TimestampedPeerInfo");
    reg_arb!(v, TransactionAck, "TransactionAck");
    reg_arb!(v, TransactionsInfo, "TransactionsInfo");
    reg_arb!(v, UnfinishedBlock, "UnfinishedBlock");
    reg_arb!(v, UnfinishedHeaderBlock, "UnfinishedHeaderBlock");
    reg_arb!(v, VDFInfo, "VDFInfo");
    reg_arb!(v, VDFProof, "VDFProof");
    reg_arb!(v, WeightProof, "WeightProof");
    reg!(v, chia_consensus::consensus_constants::ConsensusConstants, "ConsensusConstants");
    reg!(v, chia_consensus::owned_conditions::OwnedSpendBundleConditions, "OwnedSpendBundleConditions");
    reg!(v, chia_consensus::owned_conditions::OwnedSpendConditions, "OwnedSpendConditions");
    reg!(v, chia_datalayer::Hash, "Hash");
    reg!(v, chia_datalayer::InternalNode, "InternalNode");
    reg!(v, chia_datalayer::KeyId, "KeyId");
    reg!(v, chia_datalayer::LeafNode, "LeafNode");
    reg!(v, chia_datalayer::Parent, "Parent");
    reg!(v, chia_datalayer::ProofOfInclusion, "ProofOfInclusion");
    reg!(v, chia_datalayer::ProofOfInclusionLayer, "ProofOfInclusionLayer");
    reg!(v, chia_datalayer::Side, "Side");
    reg!(v, chia_datalayer::TreeIndex, "TreeIndex");
    reg!(v, chia_datalayer::ValueId, "ValueId");
    // ---- hand-written leaf conversions ----
    reg_arb!(v, Program, "Program");
    reg_arb!(v, Bytes, "Bytes");
    reg_arb!(v, Bytes32, "Bytes32");
    reg_arb!(v, Bytes48, "Bytes48");
    reg_arb!(v, Bytes96, "Bytes96");
    reg_arb!(v, Bytes100, "Bytes100");
    reg_arb!(v, G1Element, "G1Element");
    reg_arb!(v, G2Element, "G2Element");
    reg_arb!(v, String, "String");
    reg_arb!(v, bool, "bool");
    reg_arb!(v, u8, "u8");
    reg_arb!(v, i8, "i8");
    reg_arb!(v, u16, "u16");
    reg_arb!(v, i16, "i16");
    reg_arb!(v, u32, "u32");
    reg_arb!(v, i32, "i32");
    reg_arb!(v, u64, "u64");
    reg_arb!(v, i64, "i64");
    reg_arb!(v, u128, "u128");
    reg_arb!(v, i128, "i128");
    // not expressible in the schema: round-trip clauses only
    reg!(v, SecretKey, "SecretKey");
    reg!(v, GTElement, "GTElement");
    // ---- combinator instances ----
    reg_arb!(v, Option<u8>, "Option<u8>");
    reg_arb!(v, Option<bool>, "Option<bool>");
    reg_arb!(v, Vec<bool>, "Vec<bool>");
    reg_arb!(v, Vec<u8>, "Vec<u8>");
    reg_arb!(v, Vec<Option<u8>>, "Vec<Option<u8>>");
    reg_arb!(v, Option<Vec<bool>>, "Option<Vec<bool>>");
    reg_arb!(v, Vec<Vec<u8>>, "Vec<Vec<u8>>");
    reg_arb!(v, (u8, Option<u16>), "(u8, Option<u16>)");
    reg_arb!(v, (bool, bool, u8), "(bool, bool, u8)");
    reg_arb!(v, Vec<(u8, bool)>, "Vec<(u8, bool)>");
    reg_arb!(v, [u8; 2], "[u8; 2]");
    reg_arb!(v, [bool; 3], "[bool; 3]");
    reg_arb!(v, Option<String>, "Option<String>");
    reg_arb!(v, Option<Bytes>, "Option<Bytes>");
    reg_arb!(v, (u8, Bytes), "(u8, Bytes)");
    reg_arb!(v, Option<Program>, "Option<Program>");
    reg_arb!(v, (Program, u8), "(Program, u8)");
    reg_arb!(v, Vec<Program>, "Vec<Program>");
    reg_arb!(v, Vec<Coin>, "Vec<Coin>");
    reg_arb!(v, Vec<(Bytes32, u64, Option<Bytes>)>, "Vec<(Bytes32, u64, Option<Bytes>)>");
    reg_arb!(v, Vec<(G1Element, Bytes)>, "Vec<(G1Element, Bytes)>");
    reg_arb!(v, Option<G2Element>, "Option<G2Element>");
    reg_arb!(v, Vec<Vec<Vec<u32>>>, "Vec<Vec<Vec<u32>>>");
    reg_arb!(v, Vec<String>, "Vec<String>");
    reg_arb!(v, Option<FullBlock>, "Option<FullBlock>");
    reg_arb!(v, Vec<ProofOfSpace>, "Vec<ProofOfSpace>");
    reg_arb!(v, (Bytes32, Vec<Coin>), "(Bytes32, Vec<Coin>)");
    reg_arb!(v, [u64; 16], "[u64; 16]");
    reg_arb!(v, (i128, u128), "(i128, u128)");
    reg_arb!(v, [i64; 3], "[i64; 3]");
    reg_arb!(v, Vec<(u16, String, i32)>, "Vec<(u16, String, i32)>");
    v
}
