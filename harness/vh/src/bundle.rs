//! C08 (+C02/C04/C09 entry points): one spend bundle through run_spendbundle and through block
//! generators built from it (plain, back-reference compressed, both block builders).
use crate::conditions::*;
use crate::generator::*;
use crate::sx::*;
use crate::util::*;
use chia_bls::Signature;
use chia_consensus::build_compressed_block::BlockBuilder;
use chia_consensus::build_interned_block::InternedBlockBuilder;
use chia_consensus::flags::ConsensusFlags;
use chia_consensus::owned_conditions::OwnedSpendBundleConditions;
use chia_consensus::run_block_generator::run_block_generator2;
use chia_consensus::solution_generator::{calculate_generator_length, solution_generator, solution_generator_backrefs};
use chia_consensus::spendbundle_conditions::run_spendbundle;
use chia_protocol::{Bytes32, Coin, CoinSpend, Program, SpendBundle};
use clvmr::allocator::Allocator;
use rand::rngs::StdRng;
use rand::Rng;
use serde_json::{json, Value};

pub struct SpendIn {
    pub parent: Vec<u8>,
    pub ph: Vec<u8>, // declared puzzle hash
    pub amount: u64,
    pub puzzle: Sx,
    pub solution: Sx,
}

pub fn make_bundle(spends: &[SpendIn], sig: Signature) -> SpendBundle {
    let cs: Vec<CoinSpend> = spends
        .iter()
        .map(|s| {
            CoinSpend::new(
                Coin::new(Bytes32::try_from(s.parent.as_slice()).unwrap(), Bytes32::try_from(s.ph.as_slice()).unwrap(), s.amount),
                Program::from(ser_plain(&s.puzzle)),
                Program::from(ser_plain(&s.solution)),
            )
        })
        .collect();
    SpendBundle::new(cs, sig)
}

fn native(prog: &[u8], max: u64, flags: ConsensusFlags, consts: &Consts) -> Value {
    let r = catch(std::panic::AssertUnwindSafe(|| match run_block_generator2(prog, Vec::<Vec<u8>>::new(), max, flags, &Signature::default(), None, &consts.c) {
        Ok((a, c)) => json!({"ok": true, "r": summary_json(&OwnedSpendBundleConditions::from(&a, c))}),
        Err(e) => json!({"ok": false, "err": err_code(&e), "errname": err_name(&e)}),
    }));
    r.unwrap_or_else(|p| json!({"ok": false, "err": -1, "errname": format!("PANIC: {p}")}))
}

pub fn direct(bundle: &SpendBundle, max: u64, flags: ConsensusFlags, consts: &Consts) -> Value {
    let r = catch(std::panic::AssertUnwindSafe(|| {
        let mut a = Allocator::new();
        match run_spendbundle(&mut a, bundle, max, flags, &consts.c) {
            Ok((c, pkm)) => {
                let o = OwnedSpendBundleConditions::from(&a, c);
                json!({"ok": true, "r": summary_json(&o),
                       "pkm": Value::Array(pkm.iter().map(|(pk, m)| json!({"pk": jbytes(&pk.to_bytes()), "msg": jbytes(m.as_ref())})).collect())})
            }
            Err(e) => json!({"ok": false, "err": err_code(&e), "errname": err_name(&e)}),
        }
    }));
    r.unwrap_or_else(|p| json!({"ok": false, "err": -1, "errname": format!("PANIC: {p}")}))
}

pub fn sb_event(spends: &[SpendIn], flag_names: &[String], max: u64, consts: &Consts, src: &str) -> Value {
    let flags = gen_flags(flag_names);
    let bundle = make_bundle(spends, Signature::default());
    let mut vk = Vec::new();
    let runs: Vec<Value> = spends
        .iter()
        .map(|s| {
            let mut r = clvm_oracle(&s.puzzle, &s.solution, flags, 4000);
            if r["ok"].as_bool() == Some(true) && r["big"].as_bool() == Some(false) {
                collect_48(&Sx::from_json(&r["res"]), &mut vk);
            }
            r["ph"] = jbytes(&tree_hash_sx(&s.puzzle));
            r
        })
        .collect();
    let d = direct(&bundle, max, flags, consts);
    let calc_len = catch(std::panic::AssertUnwindSafe(|| calculate_generator_length(&bundle.coin_spends))).unwrap_or(0);
    let triples = || bundle.coin_spends.iter().map(|c| (c.coin, c.puzzle_reveal.as_ref().to_vec(), c.solution.as_ref().to_vec()));
    // the block limit is raised by the quote overhead so that a bundle at the limit still fits as a block
    let delta = 2 * consts.c.cost_per_byte + 20;
    let nflags = flags - ConsensusFlags::COMPUTE_FINGERPRINT;
    let gen_json = |g: Result<Vec<u8>, String>| match g {
        Ok(b) => {
            let mut v = json!({"ok": true, "len": b.len(), "native": native(&b, max.saturating_add(delta), nflags, consts)});
            if b.len() < 6000 {
                v["bytes"] = jbytes(&b);
            }
            v
        }
        Err(e) => json!({"ok": false, "errname": e}),
    };
    let plain = gen_json(solution_generator(triples()).map_err(|e| format!("{e:?}")));
    let backrefs = gen_json(solution_generator_backrefs(triples()).map_err(|e| format!("{e:?}")));
    // both block builders on this single bundle, with the truthful declared cost when the bundle is valid
    let declared = if d["ok"].as_bool() == Some(true) {
        bignat_to_u128(&d["r"]["ecost"]) as u64 + bignat_to_u128(&d["r"]["ccost"]) as u64
    } else {
        1_000_000
    };
    let cb = catch(std::panic::AssertUnwindSafe(|| {
        let mut b = BlockBuilder::new().map_err(|e| format!("{e:?}"))?;
        let (added, _) = b.add_spend_bundles([&bundle], declared, &consts.c).map_err(|e| format!("{e:?}"))?;
        let (g, _sig, cost) = b.finalize(&consts.c).map_err(|e| format!("{e:?}"))?;
        Ok::<_, String>((added, g, cost))
    }));
    let cbj = match cb {
        Ok(Ok((added, g, cost))) => json!({"ok": true, "added": added, "len": g.len(), "cost": bignat_u64(cost), "native": native(&g, BLOCK_MAX, nflags - ConsensusFlags::INTERNED_GENERATOR, consts)}),
        Ok(Err(e)) => json!({"ok": false, "errname": e}),
        Err(p) => json!({"ok": false, "errname": format!("PANIC: {p}")}),
    };
    let ib = catch(std::panic::AssertUnwindSafe(|| {
        let mut b = InternedBlockBuilder::new(&consts.c);
        let (added, _) = b.add_spend_bundles([&bundle], declared).map_err(|e| format!("{e:?}"))?;
        let (g, _sig, cost) = b.finalize().map_err(|e| format!("{e:?}"))?;
        Ok::<_, String>((added, g, cost))
    }));
    let ibj = match ib {
        Ok(Ok((added, g, cost))) => json!({"ok": true, "added": added, "len": g.len(), "cost": bignat_u64(cost), "native": native(&g, BLOCK_MAX, nflags | ConsensusFlags::INTERNED_GENERATOR, consts)}),
        Ok(Err(e)) => json!({"ok": false, "errname": e}),
        Err(p) => json!({"ok": false, "errname": format!("PANIC: {p}")}),
    };
    let adds = catch(std::panic::AssertUnwindSafe(|| match bundle.additions() {
        Ok(v) => json!({"ok": true, "coins": Value::Array(v.iter().map(|c| json!({"parent": jbytes(c.parent_coin_info.as_ref()), "ph": jbytes(c.puzzle_hash.as_ref()), "amt": bignat_u64(c.amount)})).collect())}),
        Err(e) => json!({"ok": false, "errname": format!("{e:?}"), "errkind": if format!("{e:?}").contains("invalid condition") { "invalid-condition" } else { "other" }}),
    }))
    .unwrap_or_else(|p| json!({"ok": false, "errname": format!("PANIC: {p}"), "errkind": "panic"}));
    json!({"k": "sb", "src": src, "flags": flag_names, "max": bignat_u64(max), "cpb": bignat_u64(consts.c.cost_per_byte), "consts": consts.to_json(),
        "spends": Value::Array(spends.iter().map(|s| json!({"parent": jbytes(&s.parent), "ph": jbytes(&s.ph), "amt": bignat_u64(s.amount),
            "puzzle": s.puzzle.to_jsonf(), "solution": s.solution.to_jsonf(), "plen": ser_plain(&s.puzzle).len(), "slen": ser_plain(&s.solution).len()})).collect()),
        "runs": runs, "vk": Value::Array(vk.iter().filter(|k| key_valid(k)).map(|k| jbytes(k)).collect()),
        "direct": d, "calc_len": calc_len, "plain": plain, "backrefs": backrefs, "cb": cbj, "ib": ibj, "declared": bignat_u64(declared), "additions": adds})
}

/// spends from an output-form bundle ((parent ph amount conds) ...) of the condition generator
pub fn spends_from_output(tree: &Sx, pool: &PuzzlePool, r: &mut StdRng) -> Vec<SpendIn> {
    let mut out = Vec::new();
    let Sx::P(spends, _) = tree else { return out };
    let mut cur: &Sx = spends;
    while let Sx::P(sp, rest) = cur {
        cur = rest;
        let mut f = Vec::new();
        let mut c: &Sx = sp;
        while let Sx::P(l, rr) = c {
            f.push((**l).clone());
            c = rr;
        }
        if f.len() < 4 {
            continue;
        }
        let (Sx::A(parent), Sx::A(ph), Sx::A(amt)) = (&f[0], &f[1], &f[2]) else { continue };
        if parent.len() != 32 || amt.len() > 9 {
            continue;
        }
        let mut v: u128 = 0;
        for b in amt {
            v = (v << 8) | *b as u128;
        }
        if v > u64::MAX as u128 || (!amt.is_empty() && amt[0] & 0x80 != 0) {
            continue;
        }
        let (puzzle, solution, declared) = match pool.hashes.iter().position(|h| h == ph) {
            Some(i) => (pool.puzzles[i].clone(), f[3].clone(), ph.clone()),
            None => {
                let p = Sx::cons(Sx::A(vec![1]), f[3].clone());
                let h = tree_hash_sx(&p);
                (p, Sx::nil(), h)
            }
        };
        // rarely declare a wrong puzzle hash
        let declared = if r.random_range(0..40) == 0 { rand_bytes(r, 32) } else { declared };
        out.push(SpendIn { parent: parent.clone(), ph: declared, amount: v as u64, puzzle, solution });
    }
    out
}

pub fn random_sb_flags(r: &mut StdRng) -> Vec<String> {
    let mut v = vec!["DONT_VALIDATE_SIGNATURE".to_string()];
    for n in ["COST_CONDITIONS", "INTERNED_GENERATOR", "LIMIT_SPENDS", "COMPUTE_FINGERPRINT"] {
        if r.random_range(0..3) == 0 {
            v.push(n.to_string());
        }
    }
    if r.random_range(0..2) == 0 {
        v.push("NO_UNKNOWN_CONDS".to_string());
        v.push("STRICT_ARGS_COUNT".to_string());
    }
    if r.random_range(0..5) == 0 {
        v.push("CLVM_MEMPOOL_MODE".to_string());
    }
    v
}

pub fn record(args: &Args) {
    let seed = args.u64("seed", 1);
    let mut r = rng(seed);
    let mut out = Out::create(args.req("out"));
    let consts = Consts::random(&mut r);
    let pool = PuzzlePool::new(&mut r, 4);
    // cases from MC_Bundle: {spends:[{parent, amt, puzzle, solution, wrong_ph}], flags}
    if let Some(cases) = args.get("cases") {
        for c in read_ndjson(cases) {
            let flags = names_from_json(&c["flags"]);
            let spends: Vec<SpendIn> = c["spends"]
                .as_array()
                .map(|a| {
                    a.iter()
                        .map(|s| {
                            let puzzle = Sx::from_json(&s["puzzle"]);
                            let ph = if s["wrong_ph"].as_bool() == Some(true) { vec![7u8; 32] } else { tree_hash_sx(&puzzle) };
                            SpendIn { parent: from_jbytes(&s["parent"]), ph, amount: bignat_to_u128(&s["amt"]) as u64, puzzle, solution: Sx::from_json(&s["solution"]) }
                        })
                        .collect()
                })
                .unwrap_or_default();
            out.emit(&sb_event(&spends, &flags, BLOCK_MAX, &consts, "mc"));
        }
    }
    // fixed shapes that random generation reaches rarely: a condition whose opcode position holds a pair
    // (unknown condition for consensus), alone and next to a CREATE_COIN
    if args.u64("n", 0) > 0 {
        let pair_op = Sx::list(vec![Sx::cons(Sx::A(vec![1]), Sx::A(vec![51])), Sx::A(vec![0x22; 32]), Sx::uint(1)]);
        let cc = Sx::list(vec![Sx::A(vec![51]), Sx::A(vec![0x22; 32]), Sx::uint(1)]);
        for conds in [vec![pair_op.clone()], vec![cc.clone(), pair_op.clone()]] {
            let puzzle = Sx::cons(Sx::A(vec![1]), Sx::list(conds));
            let spends = vec![SpendIn { parent: vec![0x41; 32], ph: tree_hash_sx(&puzzle), amount: 10, puzzle, solution: Sx::nil() }];
            for fl in [vec!["DONT_VALIDATE_SIGNATURE"], vec!["DONT_VALIDATE_SIGNATURE", "NO_UNKNOWN_CONDS"]] {
                let flags: Vec<String> = fl.iter().map(|x| (*x).to_string()).collect();
                out.emit(&sb_event(&spends, &flags, BLOCK_MAX, &consts, "random"));
            }
        }
    }
    for _ in 0..args.u64("n", 0) {
        let flags = random_sb_flags(&mut r);
        let clean = r.random_range(0..10) < 8;
        let bundle = {
            let mut g = Gen::new(&mut r, &consts);
            g.clean = clean;
            g.no_unknown = flags.iter().any(|f| f == "NO_UNKNOWN_CONDS");
            g.ph_pool = Some(pool.hashes.clone());
            gen_bundle(&mut g, 4, 5)
        };
        let spends = spends_from_output(&bundle, &pool, &mut r);
        let ev = sb_event(&spends, &flags, BLOCK_MAX, &consts, "random");
        if ev["direct"]["ok"].as_bool() == Some(true) && r.random_range(0..3) == 0 {
            let total = bignat_to_u128(&ev["direct"]["r"]["cost"]) as u64;
            out.emit(&ev);
            out.emit(&sb_event(&spends, &flags, total, &consts, "frontier"));
            let mut e2 = sb_event(&spends, &flags, total.saturating_sub(1), &consts, "frontier");
            e2["frontier"] = json!(true);
            out.emit(&e2);
        } else {
            out.emit(&ev);
        }
    }
    // the repository's recorded bundles
    if let Some(dir) = args.get("corpus") {
        use chia_traits::Streamable;
        let mut names: Vec<_> = std::fs::read_dir(dir).expect("bundle dir").filter_map(|e| e.ok()).map(|e| e.path()).filter(|p| p.extension().is_some_and(|x| x == "bundle")).collect();
        names.sort();
        let limit = args.u64("corpus-limit", 1000) as usize;
        for p in names.into_iter().take(limit) {
            let Ok(buf) = std::fs::read(&p) else { continue };
            let Ok(b) = SpendBundle::from_bytes(&buf) else { continue };
            let mut spends = Vec::new();
            let mut okb = true;
            for cs in &b.coin_spends {
                let mut a = Allocator::new();
                let (Ok(pz), Ok(sol)) = (clvmr::serde::node_from_bytes(&mut a, cs.puzzle_reveal.as_ref()), clvmr::serde::node_from_bytes(&mut a, cs.solution.as_ref())) else { okb = false; break };
                if node_size_exceeds(&a, pz, 6000) || node_size_exceeds(&a, sol, 6000) {
                    okb = false;
                    break;
                }
                let (pz, sol) = (Sx::from_node(&a, pz), Sx::from_node(&a, sol));
                // only plainly serialised reveals are in the property's domain
                if ser_plain(&pz) != cs.puzzle_reveal.as_ref() || ser_plain(&sol) != cs.solution.as_ref() {
                    okb = false;
                    break;
                }
                spends.push(SpendIn { parent: cs.coin.parent_coin_info.as_ref().to_vec(), ph: cs.coin.puzzle_hash.as_ref().to_vec(), amount: cs.coin.amount, puzzle: pz, solution: sol });
            }
            if !okb || spends.len() > 12 {
                continue;
            }
            let name = p.file_name().unwrap().to_string_lossy().to_string();
            for fl in [vec!["DONT_VALIDATE_SIGNATURE"], vec!["DONT_VALIDATE_SIGNATURE", "COST_CONDITIONS", "INTERNED_GENERATOR", "NO_UNKNOWN_CONDS", "STRICT_ARGS_COUNT", "LIMIT_SPENDS", "CLVM_MEMPOOL_MODE", "COMPUTE_FINGERPRINT"]] {
                let flags: Vec<String> = fl.iter().map(|s| (*s).to_string()).collect();
                out.emit(&sb_event(&spends, &flags, BLOCK_MAX, &consts, &name));
            }
        }
    }
    let n = out.finish();
    println!("{}", json!({"events": n}));
}
