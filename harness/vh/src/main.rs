#![allow(irrefutable_let_patterns, dead_code)]
mod conditions;
mod getflags;
mod ints;
mod relations;
mod sx;
mod timelocks;
mod util;

fn main() {
    let argv: Vec<String> = std::env::args().collect();
    if argv.len() < 2 {
        eprintln!("usage: vh <domain> [--key value ...]");
        std::process::exit(2);
    }
    std::panic::set_hook(Box::new(|info| {
        if !util::QUIET.with(|q| q.get()) {
            eprintln!("harness panic: {info}");
        }
    }));
    let args = util::Args::parse(&argv[2..]);
    let h = std::thread::Builder::new().stack_size(2 << 30).spawn(move || run(&argv[1], &args)).expect("spawn");
    if h.join().is_err() {
        std::process::exit(101);
    }
}

fn run(domain: &str, args: &util::Args) {
    let args = args.clone();
    let args = &args;
    match domain {
        "ints" => ints::record(args),
        "conditions" => conditions::record(args),
        "relations" => relations::record(args),
        "timelocks" => timelocks::record(args),
        "getflags" => getflags::record(args),
        d => {
            eprintln!("unknown domain {d}");
            std::process::exit(2);
        }
    }
}
