//! C01/C02/C04/C06: drive parse_spends with TLC-generated and random bundles and
//! record what it returns, in the vocabulary of spec/Conditions.tla.
use crate::sx::*;
use crate::util::*;
use chia_bls::Signature;
use chia_consensus::conditions::{parse_spends, EmptyVisitor, MempoolVisitor};
use chia_consensus::consensus_constants::{ConsensusConstants, TEST_CONSTANTS};
use chia_consensus::flags::ConsensusFlags;
use chia_consensus::owned_conditions::{OwnedSpendBundleConditions, OwnedSpendConditions};
use chia_consensus::validation_error::ValidationErr;
use chia_protocol::Bytes32;
use clvmr::Allocator;
use rand::rngs::StdRng;
use rand::Rng;
use serde_json::{json, Value};

pub const FLAG_NAMES: [(&str, ConsensusFlags); 8] = [
    ("NO_UNKNOWN_CONDS", ConsensusFlags::NO_UNKNOWN_CONDS),
    ("STRICT_ARGS_COUNT", ConsensusFlags::STRICT_ARGS_COUNT),
    ("COST_CONDITIONS", ConsensusFlags::COST_CONDITIONS),
    ("LIMIT_SPENDS", ConsensusFlags::LIMIT_SPENDS),
    ("DONT_VALIDATE_SIGNATURE", ConsensusFlags::DONT_VALIDATE_SIGNATURE),
    ("SIMPLE_GENERATOR", ConsensusFlags::SIMPLE_GENERATOR),
    ("INTERNED_GENERATOR", ConsensusFlags::INTERNED_GENERATOR),
    ("COMPUTE_FINGERPRINT", ConsensusFlags::COMPUTE_FINGERPRINT),
];

pub fn flags_from_names(names: &[String]) -> ConsensusFlags {
    let mut f = ConsensusFlags::empty();
    for n in names {
        for (k, v) in FLAG_NAMES {
            if k == n {
                f |= v;
            }
        }
    }
    f
}

pub fn names_from_json(v: &Value) -> Vec<String> {
    v.as_array()
        .map(|a| a.iter().filter_map(|x| x.as_str().map(String::from)).collect())
        .unwrap_or_default()
}

/// network constants chosen by the harness: distinct random domain strings
pub struct Consts {
    pub c: ConsensusConstants,
    pub doms: [Vec<u8>; 7],
}

impl Consts {
    pub fn random(r: &mut StdRng) -> Consts {
        let doms: [Vec<u8>; 7] = std::array::from_fn(|_| rand_bytes(r, 32));
        Self::from_doms(doms)
    }
    pub fn from_doms(doms: [Vec<u8>; 7]) -> Consts {
        let mut c = TEST_CONSTANTS.clone();
        let b = |i: usize| Bytes32::try_from(doms[i].as_slice()).unwrap();
        c.agg_sig_me_additional_data = b(0);
        c.agg_sig_parent_additional_data = b(1);
        c.agg_sig_puzzle_additional_data = b(2);
        c.agg_sig_amount_additional_data = b(3);
        c.agg_sig_puzzle_amount_additional_data = b(4);
        c.agg_sig_parent_amount_additional_data = b(5);
        c.agg_sig_parent_puzzle_additional_data = b(6);
        Consts { c, doms }
    }
    pub fn to_json(&self) -> Value {
        json!({"me": jbytes(&self.doms[0]), "parent": jbytes(&self.doms[1]), "puzzle": jbytes(&self.doms[2]),
               "amount": jbytes(&self.doms[3]), "puzzle_amount": jbytes(&self.doms[4]),
               "parent_amount": jbytes(&self.doms[5]), "parent_puzzle": jbytes(&self.doms[6])})
    }
}

/// independent key-validity oracle (raw blst): on curve, in G1, not infinity
pub fn key_valid(b: &[u8]) -> bool {
    b.len() == 48 && blst::min_pk::PublicKey::key_validate(b).is_ok()
}

pub fn collect_48(s: &Sx, out: &mut Vec<Vec<u8>>) {
    let mut stack = vec![s];
    while let Some(x) = stack.pop() {
        match x {
            Sx::A(b) => {
                if b.len() == 48 && !out.contains(b) {
                    out.push(b.clone());
                }
            }
            Sx::P(l, r) => {
                stack.push(l);
                stack.push(r);
            }
        }
    }
}

pub fn valid_keys_json(tree: &Sx) -> Value {
    let mut ks = Vec::new();
    collect_48(tree, &mut ks);
    Value::Array(ks.iter().filter(|k| key_valid(k)).map(|k| jbytes(k)).collect())
}

fn opt32(v: Option<u32>) -> Value {
    match v {
        None => json!([]),
        Some(x) => json!([bignat_u64(x as u64)]),
    }
}
fn opt64(v: Option<u64>) -> Value {
    match v {
        None => json!([]),
        Some(x) => json!([bignat_u64(x)]),
    }
}
fn pkm(v: &[(chia_bls::PublicKey, chia_protocol::Bytes)]) -> Value {
    Value::Array(v.iter().map(|(pk, m)| json!({"pk": jbytes(&pk.to_bytes()), "msg": jbytes(m.as_ref())})).collect())
}

pub fn spend_json(s: &OwnedSpendConditions) -> Value {
    json!({
        "id": jbytes(s.coin_id.as_ref()), "parent": jbytes(s.parent_id.as_ref()), "ph": jbytes(s.puzzle_hash.as_ref()),
        "amt": bignat_u64(s.coin_amount),
        "hr": opt32(s.height_relative), "sr": opt64(s.seconds_relative),
        "bhr": opt32(s.before_height_relative), "bsr": opt64(s.before_seconds_relative),
        "bh": opt32(s.birth_height), "bs": opt64(s.birth_seconds),
        "cc": Value::Array(s.create_coin.iter().map(|(ph, amt, hint)| json!({
            "ph": jbytes(ph.as_ref()), "amt": bignat_u64(*amt),
            "hint": match hint { None => json!({"k": "none"}), Some(h) => json!({"k": "some", "v": jbytes(h.as_ref())}) }
        })).collect()),
        "me": pkm(&s.agg_sig_me), "parent_sigs": pkm(&s.agg_sig_parent), "puzzle": pkm(&s.agg_sig_puzzle),
        "amount": pkm(&s.agg_sig_amount), "puzzle_amount": pkm(&s.agg_sig_puzzle_amount),
        "parent_amount": pkm(&s.agg_sig_parent_amount), "parent_puzzle": pkm(&s.agg_sig_parent_puzzle),
        "flags": s.flags, "ccost": bignat_u64(s.condition_cost), "ecost": bignat_u64(s.execution_cost),
        "fp": jbytes(s.fingerprint.as_ref()),
        // the same ids through the public Coin type (Coin::coin_id has its own integer encoder)
        "id_api": jbytes(chia_protocol::Coin::new(s.parent_id, s.puzzle_hash, s.coin_amount).coin_id().as_ref()),
        "cc_ids": Value::Array(s.create_coin.iter().map(|(ph, amt, _)| jbytes(chia_protocol::Coin::new(s.coin_id, *ph, *amt).coin_id().as_ref())).collect()),
    })
}

pub fn summary_json(o: &OwnedSpendBundleConditions) -> Value {
    json!({
        "spends": Value::Array(o.spends.iter().map(spend_json).collect()),
        "fee": bignat_u64(o.reserve_fee), "ha": bignat_u64(o.height_absolute as u64), "sa": bignat_u64(o.seconds_absolute),
        "bha": opt32(o.before_height_absolute), "bsa": opt64(o.before_seconds_absolute),
        "unsafe": pkm(&o.agg_sig_unsafe),
        "cost": bignat_u64(o.cost), "ccost": bignat_u64(o.condition_cost), "ecost": bignat_u64(o.execution_cost),
        "rem": bignat_u128(o.removal_amount), "add": bignat_u128(o.addition_amount),
        "vsig": o.validated_signature,
    })
}

pub fn err_code(e: &ValidationErr) -> u32 {
    match e {
        ValidationErr::Err(c) => u32::from(*c),
        _ => 0,
    }
}

pub fn err_name(e: &ValidationErr) -> String {
    format!("{e:?}")
}

/// one call of parse_spends; the result (or the panic) as JSON fields "ok"/"r"/"err"
pub fn run_parse_spends(tree: &Sx, flags: ConsensusFlags, max_cost: u64, clvm_cost: u64, mempool: bool, consts: &Consts) -> Value {
    let res = catch(std::panic::AssertUnwindSafe(|| {
        let mut a = Allocator::new();
        let n = tree.to_node(&mut a);
        let sig = Signature::default();
        let r = if mempool {
            parse_spends::<MempoolVisitor>(&a, n, max_cost, clvm_cost, flags, &sig, None, &consts.c)
        } else {
            parse_spends::<EmptyVisitor>(&a, n, max_cost, clvm_cost, flags, &sig, None, &consts.c)
        };
        match r {
            Ok(c) => {
                let o = OwnedSpendBundleConditions::from(&a, c);
                json!({"ok": true, "r": summary_json(&o)})
            }
            Err(e) => json!({"ok": false, "err": err_code(&e), "errname": err_name(&e)}),
        }
    }));
    match res {
        Ok(v) => v,
        Err(p) => json!({"ok": false, "err": -1, "errname": format!("PANIC: {p}")}),
    }
}

fn merge(mut a: Value, b: Value) -> Value {
    if let (Some(x), Some(y)) = (a.as_object_mut(), b.as_object()) {
        for (k, v) in y {
            x.insert(k.clone(), v.clone());
        }
    }
    a
}

pub fn event(tree: &Sx, flag_names: &[String], max_cost: u64, clvm_cost: u64, vis: &str, consts: &Consts) -> Value {
    let flags = flags_from_names(flag_names);
    let res = run_parse_spends(tree, flags, max_cost, clvm_cost, vis == "mempool", consts);
    merge(
        json!({"k": "ps", "tree": tree.to_jsonf(), "flags": flag_names, "max": bignat_u64(max_cost), "clvm": bignat_u64(clvm_cost),
               "vis": vis, "consts": consts.to_json(), "vk": valid_keys_json(tree)}),
        res,
    )
}

// ---------------------------------------------------------------------------
// random bundle generator (near-valid, cross-referencing, with shape mutations)
// ---------------------------------------------------------------------------

pub struct Gen<'a> {
    pub r: &'a mut StdRng,
    pub hashes: Vec<Vec<u8>>,
    pub keys: Vec<Vec<u8>>,
    pub bad_keys: Vec<Vec<u8>>,
    pub msgs: Vec<Vec<u8>>,
    pub doms: Vec<Vec<u8>>,
    /// clean mode: canonical shapes and semantically satisfiable conditions only
    pub clean: bool,
    pub no_unknown: bool,
    /// when set, puzzle hashes of spends are drawn from this pool (real puzzle reveals exist for them)
    pub ph_pool: Option<Vec<Vec<u8>>>,
    /// more AGG_SIG conditions (C05)
    pub agg_sig_bias: bool,
}

pub const AMOUNTS: [u128; 38] = [
    0, 1, 2, 3, 0x7f, 0x80, 0xff, 0x100, 0x7fff, 0x8000, 0xffff, 1_000_000, 0x7fff_ffff, 0x8000_0000, 0xffff_ffff, 0x1_0000_0000,
    1_750_000_000_000, 0x7fff_ffff_ffff_ffff, 0x8000_0000_0000_0000, 0xffff_ffff_ffff_fffe,
    // the remaining byte-length boundaries of the minimal encoding (2^(8k-1) - 1, 2^(8k-1), 2^(8k) - 1, 2^(8k); k = 3, 5, 6, 7)
    0x7f_ffff, 0x80_0000, 0xff_ffff, 0x100_0000, 0x7f_ffff_ffff, 0x80_0000_0000, 0xff_ffff_ffff, 0x100_0000_0000,
    0x7fff_ffff_ffff, 0x8000_0000_0000, 0xffff_ffff_ffff, 0x1_0000_0000_0000, 0x7f_ffff_ffff_ffff, 0x80_0000_0000_0000, 0xff_ffff_ffff_ffff, 0x100_0000_0000_0000,
    0xffff_ffff_ffff_ffff, 0x1_0000_0000_0000_0000,
];

pub fn off_subgroup_g1(r: &mut StdRng) -> Vec<u8> {
    // a point on the curve E(Fp) that is not in G1 (found by trial)
    loop {
        let mut b = rand_bytes(r, 48);
        b[0] = (b[0] & 0x1f) | 0x80;
        let mut aff = blst::blst_p1_affine::default();
        let ok = unsafe { blst::blst_p1_uncompress(&mut aff, b.as_ptr()) } == blst::BLST_ERROR::BLST_SUCCESS;
        if ok && !unsafe { blst::blst_p1_affine_in_g1(&aff) } {
            return b;
        }
    }
}

impl<'a> Gen<'a> {
    pub fn new(r: &'a mut StdRng, consts: &Consts) -> Gen<'a> {
        let hashes = (0..5).map(|_| rand_bytes(r, 32)).collect();
        let keys = (0..3)
            .map(|i| {
                let seed = rand_bytes(r, 32);
                let _ = i;
                chia_bls::SecretKey::from_seed(&seed).public_key().to_bytes().to_vec()
            })
            .collect();
        let mut inf = vec![0u8; 48];
        inf[0] = 0xc0;
        let bad_keys = vec![inf, rand_bytes(r, 48), off_subgroup_g1(r)];
        let mut msgs: Vec<Vec<u8>> = vec![vec![], vec![1], rand_bytes(r, 5), rand_bytes(r, 32), vec![7; 1024], vec![7; 1025]];
        // messages ending in a domain string (banned for AGG_SIG_UNSAFE), exactly 32 bytes and longer
        msgs.push(consts.doms[r.random_range(0..7usize)].clone());
        let mut m = rand_bytes(r, 3);
        m.extend_from_slice(&consts.doms[r.random_range(0..7usize)]);
        msgs.push(m);
        let mut m = consts.doms[0].clone();
        m.pop();
        msgs.push(m);
        Gen { r, hashes, keys, bad_keys, msgs, doms: consts.doms.to_vec(), clean: false, no_unknown: false, ph_pool: None, agg_sig_bias: false }
    }
    fn p(&mut self, num: u32, den: u32) -> bool {
        self.r.random_range(0..den) < num
    }
    /// probability of a mutation: never in clean mode
    fn m(&mut self, num: u32, den: u32) -> bool {
        !self.clean && self.r.random_range(0..den) < num
    }
    fn pick<T: Clone>(&mut self, v: &[T]) -> T {
        v[self.r.random_range(0..v.len())].clone()
    }
    fn hash(&mut self) -> Vec<u8> {
        let h = self.hashes.clone();
        self.pick(&h)
    }
    /// puzzle hash of a spent coin
    fn spend_ph(&mut self) -> Vec<u8> {
        match self.ph_pool.clone() {
            Some(p) => self.pick(&p),
            None => self.hash(),
        }
    }
    /// integer atom: canonical most of the time, otherwise an adversarial encoding
    pub fn int_atom(&mut self, vals: &[u128]) -> Sx {
        let v = self.pick(vals);
        let mut b = enc_uint(v);
        if self.clean {
            return Sx::A(b);
        }
        match self.r.random_range(0..14) {
            0 => b.insert(0, 0),                       // redundant (or second) leading zero
            1 => { if !b.is_empty() { b[0] |= 0x80; } else { b = vec![0x80]; } } // negative
            2 => { b = vec![0xff; self.r.random_range(1..10usize)]; }           // -1 in various widths
            3 => { let n = self.r.random_range(1..12usize); b = rand_bytes(self.r, n); }
            4 => { b = vec![0]; }                                                  // non-canonical zero
            5 => return Sx::cons(Sx::A(b), Sx::nil()),                            // pair instead of atom
            _ => {}
        }
        Sx::A(b)
    }
    fn hash_atom(&mut self, h: Vec<u8>) -> Sx {
        let mut b = h;
        if self.clean {
            return Sx::A(b);
        }
        match self.r.random_range(0..20) {
            0 => { b.pop(); }
            1 => b.push(0),
            2 => b = vec![],
            3 => return Sx::cons(Sx::A(b), Sx::nil()),
            _ => {}
        }
        Sx::A(b)
    }
    fn key_atom(&mut self) -> Sx {
        let k = if self.m(1, 6) { let b = self.bad_keys.clone(); self.pick(&b) } else { let k = self.keys.clone(); self.pick(&k) };
        let mut b = k;
        if self.clean {
            return Sx::A(b);
        }
        match self.r.random_range(0..30) {
            0 => { b.pop(); }
            1 => b.push(1),
            2 => return Sx::cons(Sx::A(b), Sx::nil()),
            _ => {}
        }
        Sx::A(b)
    }
    fn msg_atom(&mut self) -> Sx {
        let m = self.msgs.clone();
        let b = if self.clean { self.pick(&m[..5]) } else { self.pick(&m) };
        if self.m(1, 40) { Sx::cons(Sx::A(b), Sx::nil()) } else { Sx::A(b) }
    }
    /// argument list with the usual terminator / arity mutations
    fn args(&mut self, mut items: Vec<Sx>) -> Sx {
        if self.clean {
            return Sx::list(items);
        }
        let tail = match self.r.random_range(0..16) {
            0 => Sx::A(vec![1]),                 // non-nil terminator
            1 => { items.push(Sx::A(vec![0x13, 0x37])); Sx::nil() } // extra argument
            2 => { items.pop(); Sx::nil() }     // missing argument
            3 => { items.push(Sx::cons(Sx::A(vec![1]), Sx::nil())); Sx::nil() }
            _ => Sx::nil(),
        };
        Sx::list_tail(items, tail)
    }
}

pub struct SpendPlan {
    pub parent: Vec<u8>,
    pub ph: Vec<u8>,
    pub amount: u128,
    pub id: Vec<u8>,
    pub conds: Vec<Sx>,
}

const LOCK_VALS: [u128; 12] = [0, 1, 2, 100, 0x7f, 0x80, 0xffff_fffe, 0xffff_ffff, 0x1_0000_0000, 0xffff_ffff_ffff_ffff, 0x1_0000_0000_0000_0000, 5];

pub fn gen_bundle(g: &mut Gen<'_>, max_spends: usize, max_conds: usize) -> Sx {
    let n = if g.clean { g.r.random_range(1..=max_spends.max(1)) } else { g.r.random_range(0..=max_spends) };
    let mut plans: Vec<SpendPlan> = Vec::new();
    let mut created: Vec<Vec<(Vec<u8>, u128)>> = vec![Vec::new(); n];
    for i in 0..n {
        let amount = if g.clean { g.pick(&AMOUNTS[5..AMOUNTS.len() - 1]) } else { g.pick(&AMOUNTS[..AMOUNTS.len() - 1]) };
        let (parent, ph, amount) = if !plans.is_empty() && g.p(1, 4) {
            // ephemeral: child of an earlier spend (the parent may or may not create it)
            let j = g.r.random_range(0..plans.len());
            (plans[j].id.clone(), g.spend_ph(), g.pick(&[1u128, 2, 3, 0x80, 1000]))
        } else if !plans.is_empty() && g.m(1, 12) {
            // duplicate of an earlier coin -> double spend
            (plans[0].parent.clone(), plans[0].ph.clone(), plans[0].amount)
        } else {
            (g.hash(), g.spend_ph(), amount)
        };
        let id = sha256(&[&parent, &ph, &enc_uint(amount)]);
        if plans.iter().any(|p| p.id == id) && g.clean {
            continue;
        }
        plans.push(SpendPlan { parent, ph, amount, id, conds: vec![] });
    }
    let n = plans.len();
    // ephemeral parents create their children most of the time (always in clean mode if affordable)
    for i in 0..n {
        for j in 0..i {
            if plans[i].parent == plans[j].id && (g.p(3, 4) || g.clean) {
                if g.clean && (plans[i].amount > plans[j].amount / 4 || created[j].contains(&(plans[i].ph.clone(), plans[i].amount))) {
                    continue;
                }
                let c = Sx::list(vec![Sx::A(vec![51]), Sx::A(plans[i].ph.clone()), Sx::uint(plans[i].amount)]);
                plans[j].conds.push(c);
                created[j].push((plans[i].ph.clone(), plans[i].amount));
            }
        }
    }
    let ids: Vec<Vec<u8>> = plans.iter().map(|p| p.id.clone()).collect();
    let phs: Vec<Vec<u8>> = plans.iter().map(|p| p.ph.clone()).collect();
    let is_eph: Vec<bool> = (0..n)
        .map(|i| (0..n).any(|j| plans[i].parent == plans[j].id && created[j].contains(&(plans[i].ph.clone(), plans[i].amount))))
        .collect();
    let mut pending: Vec<(Option<usize>, Sx)> = Vec::new();
    for i in 0..n {
        let k = g.r.random_range(0..=max_conds);
        let mut ctx = SpendCtx { birth_h: g.pick(&[0u128, 5, 100]), birth_s: g.pick(&[0u128, 77, 1_000_000]), eph: is_eph[i], budget: plans[i].amount / 4 };
        for _ in 0..k {
            let c = gen_condition(g, i, &plans, &ids, &phs, &mut pending, &mut created, &mut ctx);
            plans[i].conds.push(c);
        }
    }
    // place deferred counterpart conditions (asserts of made announcements, receivers of sent messages)
    for (target, c) in pending {
        if n > 0 && (g.p(5, 6) || g.clean) {
            let i = match target {
                Some(t) if g.clean || g.p(2, 3) => t,
                _ => g.r.random_range(0..n),
            };
            plans[i].conds.push(c);
        }
    }
    let mut spends = Vec::new();
    for p in &mut plans {
        if g.p(1, 3) {
            for i in (1..p.conds.len()).rev() {
                let j = g.r.random_range(0..=i);
                p.conds.swap(i, j);
            }
        }
        let cond_tail = if g.m(1, 40) { Sx::A(vec![5]) } else { Sx::nil() };
        let conds = Sx::list_tail(p.conds.clone(), cond_tail);
        let amount_atom = if g.m(1, 25) { g.int_atom(&[p.amount]) } else { Sx::uint(p.amount) };
        let parent_atom = if g.m(1, 40) { g.hash_atom(p.parent.clone()) } else { Sx::A(p.parent.clone()) };
        let ph_atom = if g.m(1, 40) { g.hash_atom(p.ph.clone()) } else { Sx::A(p.ph.clone()) };
        let mut fields = vec![parent_atom, ph_atom, amount_atom, conds];
        let tail = match g.r.random_range(0..30) {
            0 if !g.clean => Sx::A(vec![9]),
            0 => Sx::A(vec![9]), // an atom tail after four fields is legal ("extra")
            1 => { fields.push(Sx::A(vec![1, 2])); Sx::nil() }
            2 if !g.clean => { fields.pop(); Sx::nil() }
            _ => Sx::nil(),
        };
        spends.push(Sx::list_tail(fields, tail));
    }
    let spends_tail = if g.m(1, 40) { Sx::A(vec![1]) } else { Sx::nil() };
    let spend_list = Sx::list_tail(spends, spends_tail);
    match g.r.random_range(0..40) {
        0 if !g.clean => spend_list.clone(),                       // missing outer wrapper
        1 => Sx::cons(spend_list, Sx::A(vec![3])),                 // outer list with atom tail
        2 => Sx::list(vec![spend_list, Sx::A(vec![1, 2, 3])]),     // future extension
        _ => Sx::list(vec![spend_list]),
    }
}

pub struct SpendCtx {
    birth_h: u128,
    birth_s: u128,
    eph: bool,
    budget: u128,
}

fn spend_id_args(g: &mut Gen<'_>, mode: u8, p: &SpendPlan) -> Vec<Sx> {
    if mode == 7 {
        return vec![Sx::A(p.id.clone())];
    }
    let mut v = Vec::new();
    if mode & 4 != 0 {
        v.push(Sx::A(p.parent.clone()));
    }
    if mode & 2 != 0 {
        v.push(Sx::A(p.ph.clone()));
    }
    if mode & 1 != 0 {
        v.push(if g.m(1, 12) { g.int_atom(&[p.amount]) } else { Sx::uint(p.amount) });
    }
    v
}

#[allow(clippy::too_many_arguments)]
pub fn gen_condition(
    g: &mut Gen<'_>,
    i: usize,
    plans: &[SpendPlan],
    ids: &[Vec<u8>],
    phs: &[Vec<u8>],
    pending: &mut Vec<(Option<usize>, Sx)>,
    created: &mut [Vec<(Vec<u8>, u128)>],
    ctx: &mut SpendCtx,
) -> Sx {
    let me = &plans[i];
    let op = |o: u8| Sx::A(vec![o]);
    let choice = if g.agg_sig_bias && g.p(1, 2) { 15 } else { g.r.random_range(0..100) };
    match choice {
        0..=11 => {
            // CREATE_COIN with hint shapes
            let ph = if g.p(1, 6) { me.ph.clone() } else { g.hash() };
            let mut amt = if g.p(1, 5) { me.amount } else { g.pick(&[0u128, 1, 2, 100, 0x80, 0xffff, me.amount / 2, me.amount.saturating_sub(1)]) };
            if g.clean {
                amt = g.pick(&[0u128, 1, 2, 3, ctx.budget / 3, ctx.budget / 2]);
                if amt > ctx.budget || created[i].contains(&(ph.clone(), amt)) {
                    return Sx::cons(op(1), Sx::nil());
                }
                ctx.budget -= amt;
            }
            created[i].push((ph.clone(), amt));
            let ph_atom = g.hash_atom(ph);
            let amt_atom = if g.m(1, 6) { g.int_atom(&[amt]) } else { Sx::uint(amt) };
            let mut items = vec![ph_atom, amt_atom];
            let h33 = vec![4u8; 33];
            let strict_ok = g.clean; // shapes 3,7,8 fail STRICT_ARGS_COUNT or are legal everywhere? keep all legal-in-consensus shapes
            let _ = strict_ok;
            match g.r.random_range(0..12) {
                0 => items.push(Sx::list(vec![Sx::A(g.hash())])),
                1 => items.push(Sx::list(vec![Sx::A(h33)])),
                2 => items.push(Sx::list(vec![Sx::nil()])),                 // empty first memo
                3 => items.push(Sx::list(vec![Sx::A(vec![1, 2, 3]), Sx::A(g.hash())])),
                4 => items.push(Sx::list(vec![Sx::list(vec![Sx::A(g.hash())])])), // pair memo
                5 => items.push(Sx::A(g.hash())),                             // non-list third arg
                6 => items.push(Sx::nil()),
                7 => items.push(Sx::cons(Sx::A(g.hash()), Sx::A(vec![1]))),  // memo list with atom tail
                8 if !g.clean => { items.push(Sx::list(vec![Sx::A(g.hash())])); items.push(Sx::A(vec![1])); }
                _ => {}
            }
            let a = g.args(items);
            Sx::cons(op(51), a)
        }
        12..=19 => {
            let o = g.pick(&[43u8, 44, 45, 46, 47, 48, 49, 50]);
            let k = g.key_atom();
            let m = g.msg_atom();
            let a = g.args(vec![k, m]);
            Sx::cons(op(o), a)
        }
        20..=23 => {
            let v = if g.clean {
                let f = g.pick(&[0u128, 1, ctx.budget / 2]);
                ctx.budget -= f.min(ctx.budget);
                Sx::uint(f)
            } else {
                g.int_atom(&[0, 1, 100, me.amount / 3, 0xffff_ffff_ffff_ffff, 0x8000_0000_0000_0000])
            };
            let a = g.args(vec![v]);
            Sx::cons(op(52), a)
        }
        24..=31 => {
            // announcements; remember the matching assert for later placement
            let coin = g.p(1, 2);
            let m = g.msg_atom();
            if let Sx::A(mb) = &m {
                let origin = if coin { me.id.clone() } else { me.ph.clone() };
                let id = sha256(&[&origin, mb]);
                if g.p(2, 3) {
                    pending.push((None, Sx::list(vec![op(if coin { 61 } else { 63 }), Sx::A(id)])));
                }
            }
            let a = g.args(vec![m]);
            Sx::cons(op(if coin { 60 } else { 62 }), a)
        }
        32..=35 => {
            // assert announcement / concurrent with random or real target
            let o = if g.clean { g.pick(&[64u8, 65]) } else { g.pick(&[61u8, 63, 64, 65]) };
            let target = match o {
                64 => { if g.p(3, 4) || g.clean { g.pick(ids) } else { g.hash() } }
                65 => { if g.p(3, 4) || g.clean { g.pick(phs) } else { g.hash() } }
                _ => g.hash(),
            };
            let t = g.hash_atom(target);
            let a = g.args(vec![t]);
            Sx::cons(op(o), a)
        }
        36..=45 => {
            // messages: one side here, the counterpart deferred (to the right spend most of the time)
            let src_mode = g.r.random_range(0..8u8);
            let dst_mode = g.r.random_range(0..8u8);
            let mode = (src_mode << 3) | dst_mode;
            let j = g.r.random_range(0..plans.len());
            let other = &plans[j];
            let m = g.msg_atom();
            let mode_atom = if g.clean { Sx::uint(mode as u128) } else {
                match g.r.random_range(0..25) {
                    0 => Sx::A(vec![0, mode]),
                    1 => Sx::A(vec![mode | 0x40]),
                    2 => Sx::A(vec![0]),
                    3 => Sx::cons(Sx::A(vec![mode]), Sx::nil()),
                    _ => Sx::uint(mode as u128),
                }
            };
            let sending = g.p(1, 2);
            let (my, their) = if sending { (66u8, 67u8) } else { (67u8, 66u8) };
            let mut items = vec![mode_atom, m.clone()];
            items.extend(spend_id_args(g, if sending { dst_mode } else { src_mode }, other));
            let mut counter = vec![Sx::uint(mode as u128), m];
            counter.extend(spend_id_args(g, if sending { src_mode } else { dst_mode }, me));
            if g.p(3, 4) || g.clean {
                pending.push((Some(j), Sx::cons(op(their), Sx::list(counter))));
            }
            let a = g.args(items);
            Sx::cons(op(my), a)
        }
        46..=55 => {
            // self assertions
            let o = g.pick(&[70u8, 71, 72, 73]);
            let good = g.p(5, 6) || g.clean;
            let arg = match o {
                70 => { let h = if good { me.id.clone() } else { g.hash() }; g.hash_atom(h) }
                71 => { let h = if good { me.parent.clone() } else { g.hash() }; g.hash_atom(h) }
                72 => { let h = if good { me.ph.clone() } else { g.hash() }; g.hash_atom(h) }
                _ => { let v = if good { me.amount } else { me.amount + 1 }; if g.m(1, 5) { g.int_atom(&[v]) } else { Sx::uint(v) } }
            };
            let a = g.args(vec![arg]);
            Sx::cons(op(o), a)
        }
        56..=75 => {
            // time locks and birth assertions
            let o = g.pick(&[74u8, 75, 80, 81, 82, 83, 84, 85, 86, 87]);
            let v = if g.clean {
                if ctx.eph && matches!(o, 74 | 75 | 80 | 82 | 84 | 86) {
                    return Sx::cons(op(1), Sx::nil());
                }
                let x: u128 = match o {
                    74 => ctx.birth_s,
                    75 => ctx.birth_h,
                    80 | 81 | 82 | 83 => g.pick(&[0u128, 1, 2, 100, 1000]),
                    84 | 85 => g.pick(&[1001u128, 5000, 0xffff_ffff_ffff_ffff, 0x1_0000_0000_0000_0000]),
                    _ => g.pick(&[1001u128, 5000, 0xffff_ffff, 0x1_0000_0000]),
                };
                Sx::uint(x)
            } else {
                g.int_atom(&LOCK_VALS)
            };
            let a = g.args(vec![v]);
            Sx::cons(op(o), a)
        }
        76..=78 => {
            if g.clean && !ctx.eph {
                return Sx::cons(op(1), Sx::nil());
            }
            let a = if g.clean { Sx::nil() } else { match g.r.random_range(0..4) { 0 => Sx::A(vec![1]), 1 => Sx::list(vec![Sx::A(vec![1])]), _ => Sx::nil() } };
            Sx::cons(op(76), a)
        }
        79..=82 => {
            if g.clean && g.no_unknown {
                return Sx::cons(op(1), Sx::nil());
            }
            let v = if g.clean { Sx::uint(g.pick(&[0u128, 1, 2, 100])) } else { g.int_atom(&[0, 1, 2, 100, 0xffff, 0xffff_ffff, 0x1_0000_0000, 1_100_000]) };
            let a = g.args(vec![v]);
            Sx::cons(op(90), a)
        }
        83..=86 => {
            // two-byte opcodes
            if g.clean && g.no_unknown {
                return Sx::cons(op(1), Sx::nil());
            }
            let b0 = if g.clean { g.pick(&[1u8, 2, 0x7f, 0x80, 0xff]) } else { g.pick(&[0u8, 1, 2, 0x7f, 0x80, 0xff]) };
            let b1 = if g.clean { g.r.random_range(0..140u8) } else { g.r.random::<u8>() };
            let a = g.args(vec![Sx::A(vec![1])]);
            Sx::cons(Sx::A(vec![b0, b1]), a)
        }
        87..=89 => {
            let a = match g.r.random_range(0..3) { 0 => Sx::A(vec![1, 2]), 1 => Sx::list(vec![Sx::cons(Sx::nil(), Sx::nil())]), _ => Sx::nil() };
            Sx::cons(op(1), a)
        }
        90..=95 => {
            // unknown opcodes of several shapes
            if g.clean && g.no_unknown {
                return Sx::cons(op(1), Sx::nil());
            }
            let o = match g.r.random_range(0..8) {
                0 => Sx::nil(),
                1 => Sx::A(vec![0]),
                2 => Sx::A(vec![51, 0]),
                3 => Sx::A(vec![0, 0, 51]),
                4 => Sx::cons(Sx::A(vec![51]), Sx::nil()),
                5 => Sx::A(vec![2]),
                6 => Sx::A(vec![53]),
                _ => Sx::A(vec![g.r.random::<u8>()]),
            };
            Sx::cons(o, if g.p(1, 2) { Sx::nil() } else { Sx::A(vec![4]) })
        }
        _ => {
            if g.clean {
                return Sx::cons(op(1), Sx::nil());
            }
            // malformed condition: atom instead of list, or bare opcode without argument list
            match g.r.random_range(0..3) {
                0 => Sx::A(vec![51]),
                1 => Sx::cons(op(g.pick(&[51u8, 52, 60, 73, 80, 49])), Sx::nil()),
                _ => Sx::cons(op(g.pick(&[51u8, 52, 60, 73, 80, 49])), Sx::A(vec![1])),
            }
        }
    }
}

// ---------------------------------------------------------------------------
// multiplicity family: one cross-spend item repeated N times, N around the 8-bit counter boundaries.
// Each group is a list of bundles that are permutations of one another (spend order, condition order).
// ---------------------------------------------------------------------------
pub fn flood_groups() -> Vec<(String, Vec<Sx>)> {
    let pa = vec![0x31u8; 32];
    let pb = vec![0x32u8; 32];
    let ph = vec![0x33u8; 32];
    let id = |parent: &[u8], amt: u128| sha256(&[parent, &ph, &enc_uint(amt)]);
    let (ida, idb) = (id(&pa, 5), id(&pb, 6));
    let msg = vec![0xabu8, 0xcd];
    // mode 0b111111: sender and receiver both committed to by coin id
    let send = |to: &[u8]| Sx::list(vec![Sx::A(vec![66]), Sx::uint(63), Sx::A(msg.clone()), Sx::A(to.to_vec())]);
    let recv = |from: &[u8]| Sx::list(vec![Sx::A(vec![67]), Sx::uint(63), Sx::A(msg.clone()), Sx::A(from.to_vec())]);
    let spend = |parent: &[u8], amt: u128, conds: Vec<Sx>| Sx::list(vec![Sx::A(parent.to_vec()), Sx::A(ph.clone()), Sx::uint(amt), Sx::list(conds)]);
    let bundle = |spends: Vec<Sx>| Sx::list(vec![Sx::list(spends)]);
    let mut groups = Vec::new();
    for n in [127usize, 128, 129, 255, 256, 257] {
        for (label, nrecv) in [("balanced", n), ("one-receive-short", n - 1), ("one-receive-extra", n + 1)] {
            // two spends: A sends n messages to B, B receives nrecv from A
            let a = spend(&pa, 5, (0..n).map(|_| send(&idb)).collect());
            let b = spend(&pb, 6, (0..nrecv).map(|_| recv(&ida)).collect());
            groups.push((format!("msg-2spends-{n}-{label}"), vec![bundle(vec![a.clone(), b.clone()]), bundle(vec![b, a])]));
            // one spend messaging itself: sends first, receives first, interleaved
            let s: Vec<Sx> = (0..n).map(|_| send(&ida)).collect();
            let r: Vec<Sx> = (0..nrecv).map(|_| recv(&ida)).collect();
            let mut sr = s.clone();
            sr.extend(r.clone());
            let mut rs = r.clone();
            rs.extend(s.clone());
            let mut mix = Vec::new();
            for i in 0..n.max(nrecv) {
                if i < n {
                    mix.push(s[i].clone());
                }
                if i < nrecv {
                    mix.push(r[i].clone());
                }
            }
            groups.push((format!("msg-self-{n}-{label}"), vec![bundle(vec![spend(&pa, 5, sr)]), bundle(vec![spend(&pa, 5, rs)]), bundle(vec![spend(&pa, 5, mix)])]));
        }
    }
    groups
}

pub fn random_flags(r: &mut StdRng) -> Vec<String> {
    let mut v = Vec::new();
    for (i, (n, _)) in FLAG_NAMES.iter().enumerate().take(5) {
        let p = if i == 4 { 5 } else { 2 };
        if r.random_range(0..6) < p {
            v.push((*n).to_string());
        }
    }
    v
}

pub fn record(args: &Args) {
    let seed = args.u64("seed", 1);
    let mut r = rng(seed);
    let mut out = Out::create(args.req("out"));
    let consts = Consts::random(&mut r);
    let frontier_every = args.u64("frontier-every", 0);
    if let Some(cases) = args.get("cases") {
        for c in read_ndjson(cases) {
            let tree = Sx::from_json(&c["tree"]);
            let flags = names_from_json(&c["flags"]);
            let max = bignat_to_u128(&c["max"]) as u64;
            let clvm = bignat_to_u128(&c["clvm"]) as u64;
            let vis = c["vis"].as_str().unwrap_or("empty").to_string();
            let cc = if c.get("consts").is_some() {
                let d = &c["consts"];
                Consts::from_doms([
                    from_jbytes(&d["me"]), from_jbytes(&d["parent"]), from_jbytes(&d["puzzle"]), from_jbytes(&d["amount"]),
                    from_jbytes(&d["puzzle_amount"]), from_jbytes(&d["parent_amount"]), from_jbytes(&d["parent_puzzle"]),
                ])
            } else {
                Consts::from_doms(consts.doms.clone())
            };
            let ev = event(&tree, &flags, max, clvm, &vis, &cc);
            let accepted = ev["ok"].as_bool() == Some(true);
            let total = if accepted { bignat_to_u128(&ev["r"]["cost"]) as u64 } else { 0 };
            out.emit(&ev);
            if accepted && frontier_every > 0 && (out.n as u64) % frontier_every == 0 {
                out.emit(&event(&tree, &flags, total, clvm, &vis, &cc));
                if total > 0 {
                    let mut e = event(&tree, &flags, total - 1, clvm, &vis, &cc);
                    e["frontier"] = json!(true);
                    out.emit(&e);
                }
            }
        }
    }
    // inputs of parse_spends recorded from the repository's own test-suite (feature verif-hooks of chia-consensus,
    // crates/chia-consensus/src/verif_hooks.rs): each distinct input is run again here, signature checking off,
    // with the recorded constants, flags (projected on the five the parser reads), limits and visitor
    if let Some(path) = args.get("pslog") {
        let text = std::fs::read_to_string(path).expect("pslog");
        let mut seen = std::collections::HashSet::new();
        let keep_one_in = args.u64("pslog-one-in", 1).max(1);
        let max_nodes = args.u64("pslog-max-nodes", 2500) as usize;
        let mut k = 0u64;
        for line in text.lines() {
            let f: Vec<&str> = line.split(' ').collect();
            if f.len() != 6 {
                continue;
            }
            let (Ok(bytes), Ok(max), Ok(clvm), Ok(bits)) = (hex::decode(f[0]), f[1].parse::<u64>(), f[2].parse::<u64>(), f[3].parse::<u32>()) else { continue };
            let rec = ConsensusFlags::from_bits_truncate(bits);
            let mut names: Vec<String> = FLAG_NAMES[..4].iter().filter(|(_, v)| rec.contains(*v)).map(|(n, _)| (*n).to_string()).collect();
            names.push("DONT_VALIDATE_SIGNATURE".to_string());
            let vis = if f[4].contains("MempoolVisitor") { "mempool" } else { "empty" };
            if !seen.insert((bytes.clone(), names.clone(), vis, max, clvm)) {
                continue;
            }
            k += 1;
            if (k + seed) % keep_one_in != 0 {
                continue;
            }
            let doms: Vec<Vec<u8>> = f[5].split(',').filter_map(|d| hex::decode(d).ok()).collect();
            if doms.len() != 7 || doms.iter().any(|d| d.len() != 32) {
                continue;
            }
            let cc = Consts::from_doms(std::array::from_fn(|i| doms[i].clone()));
            let mut a = Allocator::new();
            let Ok(n) = clvmr::serde::node_from_bytes(&mut a, &bytes) else { continue };
            let tree = Sx::from_node(&a, n);
            let mut stack = vec![&tree];
            let mut nodes = 0usize;
            while let Some(x) = stack.pop() {
                nodes += 1;
                if let Sx::P(l, r) = x {
                    stack.push(l);
                    stack.push(r);
                }
            }
            if nodes > max_nodes {
                continue;
            }
            let mut e = event(&tree, &names, max, clvm, vis, &cc);
            e["src"] = json!("repo-tests");
            out.emit(&e);
        }
    }
    // pre-hard-fork limit of 1024 announcement-class conditions per spend: 1023, 1024, 1025 of them, two spends at 1024
    if args.u64("announce-limit", 0) > 0 {
        let h1 = vec![0x11u8; 32];
        let h2 = vec![0x22u8; 32];
        let mk = |count: usize, kind: usize| -> Sx {
            let mut conds = Vec::new();
            for i in 0..count {
                let c = match (i + kind) % 4 {
                    0 => Sx::list(vec![Sx::A(vec![60]), Sx::uint(i as u128)]),
                    1 => Sx::list(vec![Sx::A(vec![62]), Sx::uint(i as u128)]),
                    2 => Sx::list(vec![Sx::A(vec![65]), Sx::A(h2.clone())]),
                    _ => Sx::list(vec![Sx::A(vec![66]), Sx::uint(0), Sx::uint((i % 7) as u128)]),
                };
                conds.push(c);
            }
            // the receivers of the mode-0 messages, so that the bundle is otherwise valid
            Sx::list(conds)
        };
        // messages: under COST_CONDITIONS they are charged instead of counted, so more than 1024 sends AND more than 1024
        // receives in one spend must pass (mode 0: no commitments, message i sent once and received once); before the
        // fork 1024 of them pass and 1026 do not
        for (pairs, fl) in [(512usize, vec!["DONT_VALIDATE_SIGNATURE"]), (513, vec!["DONT_VALIDATE_SIGNATURE"]), (512, vec!["DONT_VALIDATE_SIGNATURE", "COST_CONDITIONS"]),
                            (1026, vec!["DONT_VALIDATE_SIGNATURE", "COST_CONDITIONS"])] {
            let flags: Vec<String> = fl.iter().map(|x| (*x).to_string()).collect();
            let mut conds = Vec::new();
            for i in 0..pairs {
                conds.push(Sx::list(vec![Sx::A(vec![66]), Sx::uint(0), Sx::uint(i as u128 + 1)]));
            }
            for i in 0..pairs {
                conds.push(Sx::list(vec![Sx::A(vec![67]), Sx::uint(0), Sx::uint(i as u128 + 1)]));
            }
            let tree = Sx::list(vec![Sx::list(vec![Sx::list(vec![Sx::A(h1.clone()), Sx::A(h2.clone()), Sx::uint(5), Sx::list(conds)])])]);
            let mut e = event(&tree, &flags, 11_000_000_000, 0, "mempool", &consts);
            e["src"] = json!("announce-limit");
            out.emit(&e);
        }
        for (count, two) in [(1023usize, false), (1024, false), (1025, false), (1024, true)] {
            for fl in [vec!["DONT_VALIDATE_SIGNATURE"], vec!["DONT_VALIDATE_SIGNATURE", "COST_CONDITIONS"]] {
                let flags: Vec<String> = fl.iter().map(|x| (*x).to_string()).collect();
                // messages are left out of the mix (kind 0..2 only) to keep the bundle valid
                let mut conds = Vec::new();
                for i in 0..count {
                    conds.push(match i % 3 {
                        0 => Sx::list(vec![Sx::A(vec![60]), Sx::uint(i as u128)]),
                        1 => Sx::list(vec![Sx::A(vec![62]), Sx::uint(i as u128)]),
                        _ => Sx::list(vec![Sx::A(vec![65]), Sx::A(h2.clone())]),
                    });
                }
                let _ = &mk;
                let mut spends = vec![Sx::list(vec![Sx::A(h1.clone()), Sx::A(h2.clone()), Sx::uint(5), Sx::list(conds.clone())])];
                if two {
                    spends.push(Sx::list(vec![Sx::A(h2.clone()), Sx::A(h2.clone()), Sx::uint(6), Sx::list(conds.clone())]));
                }
                let tree = Sx::list(vec![Sx::list(spends)]);
                out.emit(&event(&tree, &flags, 11_000_000_000, 0, "empty", &consts));
            }
        }
    }
    // multiplicity family (absolute verdict and summary against the machine)
    if args.u64("flood", 0) > 0 {
        for (_label, trees) in flood_groups() {
            for (i, tree) in trees.iter().enumerate() {
                let fl: &[&str] = if i % 2 == 0 { &["DONT_VALIDATE_SIGNATURE"] } else { &["DONT_VALIDATE_SIGNATURE", "COST_CONDITIONS"] };
                let flags: Vec<String> = fl.iter().map(|x| (*x).to_string()).collect();
                let mut e = event(tree, &flags, 11_000_000_000, 0, if i == 0 { "mempool" } else { "empty" }, &consts);
                e["src"] = json!("flood");
                out.emit(&e);
            }
        }
    }
    let n = args.u64("n", 0);
    let max_spends = args.u64("max-spends", 4) as usize;
    let max_conds = args.u64("max-conds", 6) as usize;
    for _ in 0..n {
        let flags = random_flags(&mut r);
        let tree = {
            let clean = r.random_range(0..10) < 6;
            let mut g = Gen::new(&mut r, &consts);
            g.clean = clean;
            g.no_unknown = flags.iter().any(|f| f == "NO_UNKNOWN_CONDS");
            gen_bundle(&mut g, max_spends, max_conds)
        };
        let vis = if r.random::<bool>() { "mempool" } else { "empty" };
        let max: u64 = match r.random_range(0..20) {
            0 => r.random_range(0..4_000_000),
            1 => r.random_range(0..40_000_000),
            _ => 11_000_000_000,
        };
        let clvm: u64 = if r.random::<bool>() { 0 } else { r.random_range(0..1_000_000) };
        let ev = event(&tree, &flags, max, clvm, vis, &consts);
        // C04: exactness of the limit - rerun accepted bundles at total and total - 1
        if ev["ok"].as_bool() == Some(true) && r.random_range(0..3) == 0 {
            let total = bignat_to_u128(&ev["r"]["cost"]) as u64;
            out.emit(&ev);
            out.emit(&event(&tree, &flags, total, clvm, vis, &consts));
            if total > 0 {
                let mut e = event(&tree, &flags, total - 1, clvm, vis, &consts);
                e["frontier"] = json!(true);
                out.emit(&e);
            }
        } else {
            out.emit(&ev);
        }
    }
    let n = out.finish();
    println!("{}", json!({"events": n}));
}
