//! growth item X02: the proof-of-time iteration arithmetic (pot_iterations.rs) and the helpers of
//! BlockRecord built on it, observed on TLC lattice points (--cases) and seeded random inputs (--n).
//! One event per input; a panic of the code under test is data. The verdict is TLC's
//! (spec/trace/Trace_BlockRecord.tla); nothing is compared here.
//! --inputs-out writes every input as a case so that the py-bindings harness
//! (harness/vhpy/src/bin/vhpy_blockrecord.rs) replays exactly the same inputs through the pymethods.
use crate::util::*;
use chia_protocol::{calculate_ip_iters, calculate_sp_interval_iters, calculate_sp_iters, is_overflow_block};
use chia_protocol::{BlockRecord, Bytes32, ClassgroupElement};
use rand::rngs::StdRng;
use rand::Rng;
use serde_json::{json, Value};
use std::panic::AssertUnwindSafe;

#[derive(Clone, Debug)]
pub struct Inp {
    pub n: u8,
    pub extra: u8,
    pub idx: u8,
    pub ssi: u64,
    pub req: u64,
    pub total: u128,
    pub overflow: bool,
}

fn res_u64(r: Result<chia_traits::chia_error::Result<u64>, String>) -> Value {
    match r {
        Err(p) => json!({"k": "panic", "m": p}),
        Ok(Err(e)) => json!({"k": "err", "e": format!("{e:?}")}),
        Ok(Ok(v)) => json!({"k": "ok", "v": bignat_u64(v)}),
    }
}

fn res_bool(r: Result<chia_traits::chia_error::Result<bool>, String>) -> Value {
    match r {
        Err(p) => json!({"k": "panic", "m": p}),
        Ok(Err(e)) => json!({"k": "err", "e": format!("{e:?}")}),
        Ok(Ok(v)) => json!({"k": "ok", "v": v}),
    }
}

pub fn block_record(i: &Inp, deficit: u8, has_ts: bool, has_fcs: bool) -> BlockRecord {
    let z = Bytes32::default();
    BlockRecord::new(
        z,
        z,
        7,
        1000,
        i.total,
        i.idx,
        ClassgroupElement::default(),
        None,
        z,
        z,
        i.ssi,
        z,
        z,
        i.req,
        deficit,
        i.overflow,
        3,
        if has_ts { Some(1_700_000_000) } else { None },
        if has_ts { Some(z) } else { None },
        if has_ts { Some(0) } else { None },
        if has_ts { Some(vec![]) } else { None },
        if has_fcs { Some(vec![z]) } else { None },
        if has_fcs { Some(vec![]) } else { None },
        if has_fcs { Some(vec![z]) } else { None },
        None,
    )
}

pub fn inp_json(k: &str, i: &Inp) -> Value {
    json!({"k": k, "n": i.n, "extra": i.extra, "idx": i.idx, "ssi": bignat_u64(i.ssi), "req": bignat_u64(i.req),
           "total": bignat_u128(i.total), "overflow": i.overflow})
}

pub fn inp_from(c: &Value) -> Inp {
    Inp {
        n: c["n"].as_u64().expect("n") as u8,
        extra: c["extra"].as_u64().expect("extra") as u8,
        idx: c["idx"].as_u64().expect("idx") as u8,
        ssi: bignat_to_u128(&c["ssi"]) as u64,
        req: bignat_to_u128(&c["req"]) as u64,
        total: bignat_to_u128(&c["total"]),
        overflow: c["overflow"].as_bool().expect("overflow"),
    }
}

fn ev_iters(i: &Inp) -> Value {
    let mut e = inp_json("iters", i);
    let (n, extra, idx, ssi, req) = (i.n, i.extra, i.idx, i.ssi, i.req);
    let br = block_record(i, 0, false, false);
    let m = e.as_object_mut().unwrap();
    m.insert("interval".into(), res_u64(catch(AssertUnwindSafe(|| calculate_sp_interval_iters(n, ssi)))));
    m.insert("sp".into(), res_u64(catch(AssertUnwindSafe(|| calculate_sp_iters(n, ssi, idx)))));
    m.insert("ip".into(), res_u64(catch(AssertUnwindSafe(|| calculate_ip_iters(n, extra, ssi, idx, req)))));
    m.insert("ovf".into(), res_bool(catch(AssertUnwindSafe(|| is_overflow_block(n, extra, idx)))));
    m.insert("br_sp".into(), res_u64(catch(AssertUnwindSafe(|| br.sp_iters_impl(n)))));
    m.insert("br_ip".into(), res_u64(catch(AssertUnwindSafe(|| br.ip_iters_impl(n, extra)))));
    e
}

fn ev_chal(deficit: u8, minb: u8) -> Value {
    let i = Inp { n: 64, extra: 3, idx: 0, ssi: 1 << 27, req: 1, total: 1 << 30, overflow: false };
    let br = block_record(&i, deficit, false, false);
    let r = match catch(AssertUnwindSafe(|| br.is_challenge_block(minb))) {
        Err(p) => json!({"k": "panic", "m": p}),
        Ok(v) => json!({"k": "ok", "v": v}),
    };
    json!({"k": "chal", "deficit": deficit, "minb": minb, "r": r})
}

fn ev_flags(has_ts: bool, has_fcs: bool) -> Value {
    let i = Inp { n: 64, extra: 3, idx: 0, ssi: 1 << 27, req: 1, total: 1 << 30, overflow: false };
    let br = block_record(&i, 0, has_ts, has_fcs);
    json!({"k": "flags", "has_ts": has_ts, "has_fcs": has_fcs, "is_tx": br.is_transaction_block(), "first": br.first_in_sub_slot()})
}

fn shr64(r: &mut StdRng) -> u64 {
    r.random::<u64>() >> r.random_range(0..64u32)
}

/// seeded random input; the u128 arithmetic below only steers inputs towards the interesting regions
/// (divisible sub_slot_iters, required_iters inside one interval, total_iters near the subtraction
/// boundaries); it is never compared with the code's results
pub fn rand_inp(r: &mut StdRng) -> Inp {
    let n: u8 = match r.random_range(0..12) {
        0 => r.random(),
        1 => [1u8, 2, 3, 4, 8, 16, 32, 64, 128, 255][r.random_range(0..10)],
        2..=4 => 64,
        5 => 32,
        6 => r.random_range(0..4),
        _ => r.random_range(1..=255),
    };
    let extra: u8 = match r.random_range(0..10) {
        0 => r.random(),
        1 => n,
        2 => n.wrapping_sub(1),
        3 => n.saturating_add(1),
        4 => 0,
        5..=6 => 3,
        _ => r.random_range(0..=n.min(8)),
    };
    let idx: u8 = match r.random_range(0..10) {
        0 => r.random(),
        1 => n,
        2 => n.wrapping_sub(1),
        3 => n.wrapping_sub(extra),
        4 => n.wrapping_sub(extra).wrapping_sub(1),
        _ => {
            if n > 0 {
                r.random_range(0..n)
            } else {
                0
            }
        }
    };
    let nn = n.max(1) as u64;
    let maxiv = u64::MAX / nn;
    let iv: u64 = match r.random_range(0..12) {
        0 => maxiv - r.random_range(0..3u64).min(maxiv),
        1 => r.random_range(0..4),
        2 => (u64::MAX / (idx as u64 + extra as u64 + 1)).saturating_add(r.random_range(0..3)).saturating_sub(1).min(maxiv),
        3 => (1u64 << 27) / 64,
        _ => shr64(r).min(maxiv),
    };
    let ssi: u64 = match r.random_range(0..12) {
        0 => shr64(r),
        1 => (iv * nn).saturating_add(r.random_range(1..=nn)),
        _ => iv * nn,
    };
    let pre: u128 = (idx as u128 + extra as u128) * iv as u128;
    let req: u64 = match r.random_range(0..12) {
        0 => 0,
        1 => iv,
        2 => iv.saturating_sub(1),
        3 => shr64(r),
        4 => 1,
        5 => {
            if pre <= u64::MAX as u128 {
                (u64::MAX - pre as u64).saturating_add(r.random_range(0..3)).saturating_sub(1)
            } else {
                1
            }
        }
        _ => {
            if iv > 1 {
                r.random_range(1..iv)
            } else {
                1
            }
        }
    };
    let raw: u128 = pre + req as u128;
    let ip: u128 = if ssi > 0 { raw % ssi as u128 } else { 0 };
    let sp: u128 = idx as u128 * iv as u128;
    let d = r.random_range(0..3u128);
    let total: u128 = match r.random_range(0..12) {
        0 => (ip + d).saturating_sub(1),
        1 => (ip + ssi as u128 + d).saturating_sub(1),
        2 => u128::MAX - d,
        3 => r.random::<u128>() >> r.random_range(0..128u32),
        4 => (u128::MAX - sp.saturating_sub(ip)).saturating_add(d).saturating_sub(1),
        5 => ip,
        _ => (ssi as u128).saturating_mul((r.random::<u64>() >> r.random_range(0..64u32)) as u128).saturating_add(ip),
    };
    let consistent = (idx as i32) >= n as i32 - extra as i32;
    let overflow = if r.random_range(0..5) == 0 { r.random() } else { consistent };
    Inp { n, extra, idx, ssi, req, total, overflow }
}

pub fn record(args: &Args) {
    let mut r = rng(args.u64("seed", 1));
    let mut out = Out::create(args.req("out"));
    let mut inputs = args.get("inputs-out").map(Out::create);
    let (mut mc, mut rnd) = (0usize, 0usize);
    if let Some(p) = args.get("cases") {
        for c in read_ndjson(p) {
            match c["k"].as_str().unwrap_or("") {
                "iters" => out.emit(&ev_iters(&inp_from(&c))),
                "chal" => out.emit(&ev_chal(c["deficit"].as_u64().unwrap() as u8, c["minb"].as_u64().unwrap() as u8)),
                "flags" => out.emit(&ev_flags(c["has_ts"].as_bool().unwrap(), c["has_fcs"].as_bool().unwrap())),
                other => panic!("unknown case kind {other}"),
            }
            if let Some(o) = inputs.as_mut() {
                o.emit(&c);
            }
            mc += 1;
        }
    }
    for _ in 0..args.u64("n", 0) {
        let i = rand_inp(&mut r);
        out.emit(&ev_iters(&i));
        if let Some(o) = inputs.as_mut() {
            o.emit(&inp_json("iters", &i));
        }
        rnd += 1;
        if rnd % 16 == 0 {
            let (d, m): (u8, u8) = (r.random(), if r.random_range(0..4) == 0 { r.random() } else { 16 });
            let d = if r.random::<bool>() { m.wrapping_sub(1) } else { d };
            out.emit(&ev_chal(d, m));
            if let Some(o) = inputs.as_mut() {
                o.emit(&json!({"k": "chal", "deficit": d, "minb": m}));
            }
        }
    }
    let n = out.finish();
    if let Some(o) = inputs {
        o.finish();
    }
    println!("{}", json!({"events": n, "mc": mc, "random": rnd}));
}
