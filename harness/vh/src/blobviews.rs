//! X07 BlobViews: the read side of the DataLayer Merkle blob (iterators.rs, proof_of_inclusion.rs,
//! deltas.rs and the read-only queries of blob.rs).
//!
//! Histories of public MerkleBlob calls (the TLC histories of MC_BlobViews, replayed as a trie, and
//! seeded random ones) drive a real blob; after every call one self-contained `view` event records
//!  * `tree`  - the blob walked from index 0 through get_node (block index, key, value, hash, dirty bit),
//!  * `ctree` - the same walk on a clone on which calculate_lazy_hashes was called,
//!  * `ptree` - that walk for the state before the call (the "previous generation" of the delta scenario),
//!  * what the three iterators, the lineage / key / hash queries, ProofOfInclusion::valid on genuine
//!    and single-point tampered proofs, and the delta reader return.
//! Nothing here decides whether a result is right: Trace_BlobViews.tla recomputes every view from the
//! logged tree shape.
use crate::sx::sha256;
use crate::util::*;
use chia_datalayer::{
    get_internal_terminal, try_get_block, Block, BreadthFirstIterator, DeltaReader, DeltaReaderNode, Hash, InsertLocation, InternalNodesMap, KeyId,
    LeafNodesMap, LeftChildFirstIterator, MerkleBlob, Node, ParentFirstIterator, ProofOfInclusion, Side, TreeIndex, ValueId,
};
use chia_protocol::Bytes32;
use rand::rngs::StdRng;
use rand::Rng;
use serde_json::{json, Value};
use std::collections::{BTreeMap, HashMap, HashSet};
use std::panic::AssertUnwindSafe;
use std::path::PathBuf;

type H32 = [u8; 32];

fn ks(k: i64) -> Value {
    json!(k.to_string())
}
fn parse_i64(v: &Value) -> i64 {
    v.as_str().and_then(|s| s.parse().ok()).expect("decimal string")
}
fn conc_hash(v: &Value) -> H32 {
    let a = v.as_array().expect("hash");
    if a.len() == 32 {
        return from_jbytes(v).try_into().unwrap();
    }
    let id = a[0].as_str().expect("symbolic hash id");
    sha256(&[b"verif-leaf-hash:", id.as_bytes()]).try_into().unwrap()
}
fn hash_of(h: &H32) -> Hash {
    Hash(Bytes32::new(*h))
}
fn jh(h: &Hash) -> Value {
    jbytes(h.0.as_ref())
}
fn side_of(s: u64) -> Side {
    if s == 0 { Side::Left } else { Side::Right }
}
fn short(s: String) -> String {
    s.chars().take(100).collect()
}
fn new_blob(bytes: Vec<u8>) -> MerkleBlob {
    let mut b = MerkleBlob::new(bytes).expect("blob");
    b.check_integrity_on_drop = false;
    b
}
fn res<T>(r: Result<Result<T, chia_datalayer::Error>, String>) -> (Value, Option<T>) {
    match r {
        Ok(Ok(v)) => (json!({"k": "ok"}), Some(v)),
        Ok(Err(e)) => (json!({"k": "err", "e": short(format!("{e:?}"))}), None),
        Err(p) => (json!({"k": "panic", "e": short(p)}), None),
    }
}

/// one call of a history (the JSON form of MerkleBlob.tla's `op`); false = not expressible / failed
fn apply(blob: &mut MerkleBlob, v: &Value) -> bool {
    let item = |x: &Value| (KeyId(parse_i64(&x["key"])), ValueId(parse_i64(&x["val"])), hash_of(&conc_hash(&x["h"])));
    let r = match v["k"].as_str().unwrap() {
        "insert" => {
            let (k, val, h) = item(v);
            let l = &v["loc"];
            let side = side_of(l["side"].as_u64().unwrap_or(0));
            let loc = match l["k"].as_str().unwrap() {
                "auto" => InsertLocation::Auto {},
                "root" => InsertLocation::AsRoot {},
                "index0" => InsertLocation::Leaf { index: TreeIndex(0), side },
                "freed" => return false,
                "leaf" => match blob.get_key_index(KeyId(parse_i64(&l["key"]))) {
                    Ok(index) => InsertLocation::Leaf { index, side },
                    Err(_) => return false,
                },
                x => panic!("loc {x}"),
            };
            catch(AssertUnwindSafe(|| blob.insert(k, val, &h, loc).map(|_| ())))
        }
        "upsert" => {
            let (k, val, h) = item(v);
            catch(AssertUnwindSafe(|| blob.upsert(k, val, &h)))
        }
        "delete" => catch(AssertUnwindSafe(|| blob.delete(KeyId(parse_i64(&v["key"]))))),
        "batch" => {
            let items: Vec<((KeyId, ValueId), Hash)> = v["items"].as_array().unwrap().iter().map(|x| { let (k, val, h) = item(x); ((k, val), h) }).collect();
            // a batch with a repeated key / hash is C18's known finding; not driven here
            let ks: HashSet<i64> = items.iter().map(|x| x.0.0.0).collect();
            let hs: HashSet<Hash> = items.iter().map(|x| x.1).collect();
            if ks.len() != items.len() || hs.len() != items.len() || items.iter().any(|x| blob.get_key_index(x.0.0).is_ok() || blob.get_node_by_hash(x.1).is_ok()) {
                return false;
            }
            catch(AssertUnwindSafe(|| blob.batch_insert(items)))
        }
        "calc" => catch(AssertUnwindSafe(|| blob.calculate_lazy_hashes())),
        "reload" => {
            let b = blob.read_blob().clone();
            *blob = new_blob(b);
            Ok(Ok(()))
        }
        x => panic!("op {x}"),
    };
    matches!(r, Ok(Ok(())))
}

fn walk(blob: &MerkleBlob, idx: TreeIndex, depth: usize, seen: &mut HashSet<u32>) -> Value {
    if depth > 200 || !seen.insert(idx.0) {
        return json!({"t": "X", "e": "cycle or too deep"});
    }
    let node = match catch(AssertUnwindSafe(|| blob.get_node(idx))) {
        Ok(Ok(n)) => n,
        _ => return json!({"t": "X", "e": "get_node"}),
    };
    let dirty = match try_get_block(blob.read_blob(), idx) {
        Ok(b) => b.metadata.dirty,
        Err(_) => return json!({"t": "X", "e": "block"}),
    };
    match node {
        Node::Leaf(l) => json!({"t": "L", "i": idx.0, "k": ks(l.key.0), "v": ks(l.value.0), "h": jh(&l.hash)}),
        Node::Internal(n) => {
            let l = walk(blob, n.left, depth + 1, seen);
            let r = walk(blob, n.right, depth + 1, seen);
            json!({"t": "N", "i": idx.0, "l": l, "r": r, "h": jh(&n.hash), "d": dirty})
        }
    }
}
fn project(blob: &MerkleBlob) -> Value {
    if blob.read_blob().is_empty() {
        return json!({"t": "E"});
    }
    walk(blob, TreeIndex(0), 0, &mut HashSet::new())
}
/// (index, hash, key or None) of every node of a projected tree, pre-order
fn nodes_of(t: &Value, out: &mut Vec<(u32, Vec<u8>, Option<i64>)>) {
    match t["t"].as_str() {
        Some("L") => out.push((t["i"].as_u64().unwrap() as u32, from_jbytes(&t["h"]), Some(parse_i64(&t["k"])))),
        Some("N") => {
            out.push((t["i"].as_u64().unwrap() as u32, from_jbytes(&t["h"]), None));
            nodes_of(&t["l"], out);
            nodes_of(&t["r"], out);
        }
        _ => {}
    }
}

fn iter_json(it: impl Iterator<Item = Result<(TreeIndex, Block), chia_datalayer::Error>>) -> Value {
    let r = catch(AssertUnwindSafe(|| {
        let mut items = Vec::new();
        for x in it.take(100_000) {
            match x {
                Ok((i, b)) => items.push(json!({"i": i.0, "h": jh(&b.node.hash())})),
                Err(e) => return json!({"k": "err", "e": short(format!("{e:?}")), "items": items}),
            }
        }
        json!({"k": "ok", "items": items})
    }));
    r.unwrap_or_else(|p| json!({"k": "panic", "e": short(p)}))
}
fn iters_json(blob: &MerkleBlob, from: Option<TreeIndex>) -> Value {
    let b = blob.read_blob();
    json!({
        "from": from.map(|x| vec![x.0]).unwrap_or_default(),
        "lcf": iter_json(LeftChildFirstIterator::new(b, from)),
        "pf": iter_json(ParentFirstIterator::new(b, from)),
        "bf": iter_json(BreadthFirstIterator::new(b, from)),
    })
}

fn proof_json(p: &ProofOfInclusion) -> Value {
    let layers: Vec<Value> = p.layers.iter().map(|l| json!({"s": l.other_hash_side as u8, "o": jh(&l.other_hash), "c": jh(&l.combined_hash)})).collect();
    let (valid, root) = match catch(AssertUnwindSafe(|| (p.valid(), p.root_hash()))) {
        Ok((v, r)) => (json!(v.to_string()), jh(&r)),
        Err(e) => (json!(short(e)), json!([])),
    };
    json!({"node": jh(&p.node_hash), "layers": layers, "valid": valid, "root": root})
}
fn flip(s: Side) -> Side {
    match s { Side::Left => Side::Right, Side::Right => Side::Left }
}
/// the single-point tamperings of Tamper(p, kind, pos, x) in BlobViews.tla (pos is 1-based)
fn tamper(p: &ProofOfInclusion, kind: &str, pos: usize, x: &Hash) -> Option<ProofOfInclusion> {
    let mut q = p.clone();
    let n = q.layers.len();
    match kind {
        "node" => q.node_hash = *x,
        "flip" if pos <= n => q.layers[pos - 1].other_hash_side = flip(q.layers[pos - 1].other_hash_side),
        "swap" if pos < n => q.layers.swap(pos - 1, pos),
        "drop" if pos <= n => { q.layers.remove(pos - 1); }
        "other" if pos <= n => q.layers[pos - 1].other_hash = *x,
        "comb" if pos <= n => q.layers[pos - 1].combined_hash = *x,
        _ => return None,
    }
    Some(q)
}

fn ent_json(h: &Hash, n: &DeltaReaderNode, idx: Option<TreeIndex>) -> Value {
    let i: Vec<u32> = idx.map(|x| vec![x.0]).unwrap_or_default();
    match n {
        DeltaReaderNode::Internal { left, right } => json!({"h": jh(h), "t": "N", "a": jh(left), "b": jh(right), "i": i}),
        DeltaReaderNode::Leaf { key, value } => json!({"h": jh(h), "t": "L", "a": ks(key.0), "b": ks(value.0), "i": i}),
    }
}
fn sorted(mut v: Vec<Value>) -> Vec<Value> {
    v.sort_by_key(|x| x.to_string());
    v
}
fn terminal_json(bytes: &[u8], idxs: &Vec<TreeIndex>) -> (Value, Vec<(Hash, DeltaReaderNode)>) {
    match catch(AssertUnwindSafe(|| get_internal_terminal(bytes, idxs))) {
        Ok(Ok(m)) => {
            let ents = sorted(m.iter().map(|(h, (i, n))| ent_json(h, n, Some(*i))).collect());
            (json!({"k": "ok", "from": idxs.iter().map(|x| x.0).collect::<Vec<_>>(), "ents": ents}), m.into_iter().map(|(h, (_, n))| (h, n)).collect())
        }
        Ok(Err(e)) => (json!({"k": "err", "e": short(format!("{e:?}"))}), vec![]),
        Err(p) => (json!({"k": "panic", "e": short(p)}), vec![]),
    }
}
fn reader_of(ents: &[(Hash, DeltaReaderNode)], keep: impl Fn(&Hash) -> bool) -> (DeltaReader, Vec<Value>) {
    let mut i = InternalNodesMap::new();
    let mut l = LeafNodesMap::new();
    let mut given = Vec::new();
    for (h, n) in ents {
        if !keep(h) {
            continue;
        }
        given.push(ent_json(h, n, None));
        match n {
            DeltaReaderNode::Internal { left, right } => { i.insert(*h, (*left, *right)); }
            DeltaReaderNode::Leaf { key, value } => { l.insert(*h, (*key, *value)); }
        }
    }
    (DeltaReader::new(i, l).expect("reader"), sorted(given))
}
fn missing_json(r: &DeltaReader, root: Hash) -> Value {
    match catch(AssertUnwindSafe(|| r.get_missing_hashes(root))) {
        Ok(s) => json!({"k": "ok", "root": jh(&root), "set": sorted(s.iter().map(jh).collect())}),
        Err(p) => json!({"k": "panic", "e": short(p)}),
    }
}
fn build_json(r: &mut DeltaReader, root: Hash, interested: &HashSet<Hash>) -> Value {
    match catch(AssertUnwindSafe(|| r.create_merkle_blob_and_filter_unused_nodes(root, interested))) {
        Ok(Ok(mut b)) => {
            b.check_integrity_on_drop = false;
            let integ = res(catch(AssertUnwindSafe(|| b.check_integrity()))).0;
            let reload = res(catch(AssertUnwindSafe(|| MerkleBlob::new(b.read_blob().clone()).map(|mut x| x.check_integrity_on_drop = false)))).0;
            json!({"k": "ok", "tree": project(&b), "integrity": integ, "reload": reload})
        }
        Ok(Err(e)) => json!({"k": "err", "e": short(format!("{e:?}"))}),
        Err(p) => json!({"k": "panic", "e": short(p)}),
    }
}

struct Ctx {
    r: StdRng,
    dir: PathBuf,
    seen: HashSet<Vec<u8>>,
    events: usize,
    dups: usize,
}

fn pick<T: Clone>(r: &mut StdRng, all: &[T], max: usize) -> Vec<T> {
    if all.len() <= max {
        return all.to_vec();
    }
    let mut idx: Vec<usize> = (0..all.len()).collect();
    let mut out = Vec::new();
    for _ in 0..max {
        let j = r.random_range(0..idx.len());
        out.push(all[idx.swap_remove(j)].clone());
    }
    out
}

/// the `view` event of one state (cur), with prev as the previous generation
fn view(cx: &mut Ctx, prev: &MerkleBlob, cur: &MerkleBlob, out: &mut Out) {
    let tree = project(cur);
    let mut c = cur.clone();
    c.check_integrity_on_drop = false;
    let calc = res(catch(AssertUnwindSafe(|| c.calculate_lazy_hashes()))).0;
    let ctree = project(&c);
    let mut pc = prev.clone();
    pc.check_integrity_on_drop = false;
    let _ = catch(AssertUnwindSafe(|| pc.calculate_lazy_hashes()));
    let ptree = project(&pc);
    let key = sha256(&[tree.to_string().as_bytes(), b"|", ptree.to_string().as_bytes()]);
    if !cx.seen.insert(key) {
        cx.dups += 1;
        return;
    }
    let mut nodes = Vec::new();
    nodes_of(&ctree, &mut nodes);
    let all_idx: Vec<u32> = nodes.iter().map(|x| x.0).collect();
    let keys: Vec<i64> = nodes.iter().filter_map(|x| x.2).collect();
    let r = &mut cx.r;

    // ---- iterators, on the blob as it is (dirty nodes, stale hashes) and from sub-roots
    let mut its = vec![iters_json(cur, None)];
    for i in pick(r, &all_idx, 4) {
        its.push(iters_json(cur, Some(TreeIndex(i))));
    }
    let dirty_lcf = iter_json(LeftChildFirstIterator::new_with_block_predicate(cur.read_blob(), None, Some(|b: &Block| b.metadata.dirty)));

    // ---- map queries
    let kv = match catch(AssertUnwindSafe(|| cur.get_keys_values())) {
        Ok(Ok(m)) => {
            let s: BTreeMap<i64, i64> = m.iter().map(|(k, v)| (k.0, v.0)).collect();
            json!({"k": "ok", "kv": s.iter().map(|(k, v)| json!([ks(*k), ks(*v)])).collect::<Vec<_>>()})
        }
        _ => json!({"k": "err"}),
    };
    let mut probes: Vec<i64> = pick(r, &keys, 6);
    probes.push(r.random::<i64>());
    probes.push(0);
    for k in 1..=4 {
        if !probes.contains(&k) {
            probes.push(k);
        }
    }
    let kidx: Vec<Value> = probes
        .iter()
        .map(|k| match catch(AssertUnwindSafe(|| cur.get_key_index(KeyId(*k)))) {
            Ok(Ok(i)) => json!({"key": ks(*k), "k": "ok", "i": i.0}),
            Ok(Err(_)) => json!({"key": ks(*k), "k": "err"}),
            Err(_) => json!({"key": ks(*k), "k": "panic"}),
        })
        .collect();
    let lineage: Vec<Value> = pick(r, &all_idx, 8)
        .iter()
        .map(|i| {
            let a = res(catch(AssertUnwindSafe(|| cur.get_lineage_indexes(TreeIndex(*i)))));
            let b = res(catch(AssertUnwindSafe(|| cur.get_lineage_with_indexes(TreeIndex(*i)))));
            json!({"from": i, "res": a.0, "idx": a.1.unwrap_or_default().iter().map(|x| x.0).collect::<Vec<_>>(),
                   "nodes": b.1.unwrap_or_default().iter().map(|(x, n)| json!({"i": x.0, "h": jh(&n.hash())})).collect::<Vec<_>>()})
        })
        .collect();

    // ---- hash queries, on the clone with clean hashes
    let hi = |leafs: bool| match catch(AssertUnwindSafe(|| c.get_hashes_indexes(leafs))) {
        Ok(Ok(m)) => json!({"k": "ok", "n": m.len(), "pairs": sorted(m.iter().map(|(h, i)| json!({"h": jh(h), "i": i.0})).collect())}),
        _ => json!({"k": "err"}),
    };
    let hashes = match catch(AssertUnwindSafe(|| c.get_hashes())) {
        Ok(Ok(s)) => json!({"k": "ok", "set": sorted(s.iter().map(jh).collect())}),
        _ => json!({"k": "err"}),
    };
    let nbh: Vec<Value> = pick(r, &nodes, 6)
        .iter()
        .map(|(_, h, _)| {
            let hh = hash_of(&h.clone().try_into().unwrap());
            match catch(AssertUnwindSafe(|| c.get_node_by_hash(hh))) {
                Ok(Ok((k, v))) => json!({"h": jbytes(h), "k": "ok", "key": ks(k.0), "val": ks(v.0)}),
                _ => json!({"h": jbytes(h), "k": "err"}),
            }
        })
        .collect();

    // ---- inclusion proofs: genuine, and every single-point tampering
    let mut proofs = Vec::new();
    let big = keys.len() > 4;
    for k in pick(r, &keys, if big { 2 } else { 4 }) {
        match catch(AssertUnwindSafe(|| c.get_proof_of_inclusion(KeyId(k)))) {
            Ok(Ok(p)) => {
                let n = p.layers.len();
                let xs: Vec<Hash> = vec![
                    hash_of(&r.random::<H32>()),
                    p.root_hash(),
                    p.layers.first().map(|l| l.other_hash).unwrap_or(p.node_hash),
                    p.node_hash,
                ];
                let mut tampered = Vec::new();
                for kind in ["node", "flip", "swap", "drop", "other", "comb"] {
                    let positions: Vec<usize> = if kind == "node" { vec![1] } else { pick(r, &(1..=n).collect::<Vec<_>>(), if big { 3 } else { 6 }) };
                    for pos in positions {
                        let nx = if kind == "node" { xs.len() } else if matches!(kind, "other" | "comb") { 2 } else { 1 };
                        for x in &xs[..nx] {
                            if let Some(q) = tamper(&p, kind, pos, x) {
                                let mut j = proof_json(&q);
                                j["kind"] = json!(kind);
                                j["pos"] = json!(pos);
                                j["x"] = jh(x);
                                tampered.push(j);
                            }
                        }
                    }
                }
                let mut j = proof_json(&p);
                j["key"] = ks(k);
                j["k"] = json!("ok");
                j["tampered"] = json!(tampered);
                proofs.push(j);
            }
            Ok(Err(e)) => proofs.push(json!({"key": ks(k), "k": "err", "e": short(format!("{e:?}"))})),
            Err(p) => proofs.push(json!({"key": ks(k), "k": "panic", "e": short(p)})),
        }
    }
    // a key the blob does not hold has no proof
    let absent = probes.iter().copied().find(|k| !keys.contains(k)).unwrap_or(-7);
    let noproof = res(catch(AssertUnwindSafe(|| c.get_proof_of_inclusion(KeyId(absent))))).0;

    // ---- deltas (non-empty generations only)
    let mut delta = json!({"k": "none"});
    if !c.read_blob().is_empty() && calc["k"] == "ok" {
        let curp = cx.dir.join("cur.zst");
        let prevp = cx.dir.join("prev.zst");
        c.to_path(&curp).expect("to_path");
        pc.to_path(&prevp).expect("to_path");
        let root = c.get_hash_at_index(TreeIndex(0)).ok().flatten().expect("root hash");
        let (full, ents) = terminal_json(c.read_blob(), &vec![TreeIndex(0)]);
        let subs: Vec<TreeIndex> = pick(r, &all_idx, 2).into_iter().map(TreeIndex).collect();
        let (part, _) = terminal_json(c.read_blob(), &subs);
        // the new generation minus what the previous generation already holds
        let phashes: HashSet<Hash> = pc.get_hashes().unwrap_or_default();
        let (mut rd, given) = reader_of(&ents, |h| !phashes.contains(h));
        let missing = missing_json(&rd, root);
        let early = {
            let (mut rd0, _) = reader_of(&ents, |h| !phashes.contains(h));
            build_json(&mut rd0, root, &HashSet::new())
        };
        // fetch the missing subtrees from the previous generation's file
        let pidx: HashMap<Hash, TreeIndex> = pc.get_hashes_indexes(false).unwrap_or_default();
        let miss: HashSet<Hash> = rd.get_missing_hashes(root);
        let mut fetch: Vec<TreeIndex> = miss.iter().filter_map(|h| pidx.get(h).copied()).collect();
        fetch.sort();
        let collect = res(catch(AssertUnwindSafe(|| rd.collect_from_merkle_blob(&prevp, &fetch)))).0;
        let missing2 = missing_json(&rd, root);
        let rebuilt = build_json(&mut rd, root, &HashSet::new());
        // a reader that withholds a seeded subset of the generation's own nodes
        let ndrop = 1 + r.random_range(0..3);
        let drop: HashSet<Hash> = pick(r, &ents.iter().map(|x| x.0).collect::<Vec<_>>(), ndrop).into_iter().collect();
        let (mut rd2, given2) = reader_of(&ents, |h| !drop.contains(h));
        let missing_d = missing_json(&rd2, root);
        let build_d = build_json(&mut rd2, root, &HashSet::new());
        // every node of both generations offered: the unused ones are filtered out by the build
        let (_, pents) = terminal_json(pc.read_blob(), &vec![TreeIndex(0)]);
        let mut both: Vec<(Hash, DeltaReaderNode)> = pents;
        both.extend(ents);
        let (mut rd3, _) = reader_of(&both, |_| true);
        let build_b = build_json(&mut rd3, root, &HashSet::new());
        let after: Vec<Value> = phashes.iter().map(|h| missing_json(&rd3, *h)).collect();
        delta = json!({"k": "some", "root": jh(&root), "full": full, "part": part, "given": given, "missing": missing, "early": early,
                       "fetch": fetch.iter().map(|x| x.0).collect::<Vec<_>>(), "collect": collect, "missing2": missing2, "rebuilt": rebuilt,
                       "given2": given2, "missing_d": missing_d, "build_d": build_d, "build_b": build_b, "after_filter": sorted(after)});
    }

    out.emit(&json!({"k": "view", "tree": tree, "ctree": ctree, "ptree": ptree, "calc": calc, "its": its, "dirty_lcf": dirty_lcf,
                     "cits": iters_json(&c, None), "cdirty_lcf": iter_json(LeftChildFirstIterator::new_with_block_predicate(c.read_blob(), None, Some(|b: &Block| b.metadata.dirty))),
                     "kv": kv, "kidx": kidx, "lineage": lineage, "hi_all": hi(false), "hi_leaf": hi(true), "hashes": hashes, "nbh": nbh,
                     "proofs": proofs, "noproof": noproof, "delta": delta}));
    cx.events += 1;
}

#[derive(Default)]
struct Trie {
    kids: Vec<(String, Value, Trie)>,
}
impl Trie {
    fn add(&mut self, ops: &[Value]) {
        if ops.is_empty() {
            return;
        }
        let key = ops[0].to_string();
        let pos = match self.kids.iter().position(|k| k.0 == key) {
            Some(p) => p,
            None => {
                self.kids.push((key, ops[0].clone(), Trie::default()));
                self.kids.len() - 1
            }
        };
        self.kids[pos].2.add(&ops[1..]);
    }
}
fn replay(t: &Trie, blob: &MerkleBlob, cx: &mut Ctx, out: &mut Out) {
    for (_, opj, sub) in &t.kids {
        let mut b = blob.clone();
        b.check_integrity_on_drop = false;
        if apply(&mut b, opj) {
            view(cx, blob, &b, out);
            replay(sub, &b, cx, out);
        }
    }
}

fn gen_op(r: &mut StdRng, present: &[i64], nk: i64, ver: &mut u64) -> Value {
    *ver += 1;
    let fresh_hash = |r: &mut StdRng| jbytes(&r.random::<H32>());
    let key = |r: &mut StdRng| if r.random_range(0..8) == 0 { r.random::<i64>() } else { r.random_range(1..=nk) };
    let pickp = |r: &mut StdRng| present[r.random_range(0..present.len())];
    let n = present.len();
    match r.random_range(0..100) {
        0..=39 => {
            let k = key(r);
            let loc = if n > 0 && r.random_range(0..2) == 0 { json!({"k": "leaf", "key": ks(pickp(r)), "side": r.random_range(0..2)}) } else { json!({"k": "auto"}) };
            json!({"k": "insert", "key": ks(k), "val": ks(r.random_range(0..1000)), "h": fresh_hash(r), "loc": loc})
        }
        40..=54 => json!({"k": "upsert", "key": ks(if n > 0 && r.random_range(0..4) != 0 { pickp(r) } else { key(r) }), "val": ks(r.random_range(0..1000)), "h": fresh_hash(r)}),
        55..=74 => json!({"k": "delete", "key": ks(if n > 0 { pickp(r) } else { key(r) })}),
        75..=84 => {
            let sz = r.random_range(1..6);
            let mut items = Vec::new();
            let mut used: Vec<i64> = present.to_vec();
            for _ in 0..sz {
                let k = key(r);
                if used.contains(&k) {
                    continue;
                }
                used.push(k);
                items.push(json!({"key": ks(k), "val": ks(r.random_range(0..1000)), "h": fresh_hash(r)}));
            }
            json!({"k": "batch", "items": items})
        }
        85..=94 => json!({"k": "calc"}),
        _ => json!({"k": "reload"}),
    }
}

pub fn record(args: &Args) {
    let mut out = Out::create(args.req("out"));
    let seed = args.u64("seed", 1);
    let dir = PathBuf::from(format!("{}.d", args.req("out")));
    std::fs::create_dir_all(&dir).expect("scratch dir");
    let mut cx = Ctx { r: rng(seed ^ 0x0707), dir: dir.clone(), seen: HashSet::new(), events: 0, dups: 0 };
    let empty = new_blob(Vec::new());
    if let Some(cases) = args.get("cases") {
        let mut trie = Trie::default();
        let mut n = 0usize;
        for c in read_ndjson(cases) {
            trie.add(c["hist"].as_array().expect("hist"));
            n += 1;
        }
        view(&mut cx, &empty, &empty, &mut out);
        replay(&trie, &empty, &mut cx, &mut out);
        eprintln!("blobviews: {n} cases, {} distinct (state, previous state) views, {} repeats skipped", cx.events, cx.dups);
    } else {
        let nhist = args.u64("hist", 10) as usize;
        let len = args.u64("len", 40) as usize;
        let nk = args.u64("keys", 24) as i64;
        let mut ver = 0u64;
        for _ in 0..nhist {
            let mut blob = new_blob(Vec::new());
            for _ in 0..len {
                let present: Vec<i64> = blob.get_keys_values().map(|m| m.keys().map(|k| k.0).collect()).unwrap_or_default();
                let mut present = present;
                present.sort();
                let op = gen_op(&mut cx.r, &present, nk, &mut ver);
                let mut b = blob.clone();
                b.check_integrity_on_drop = false;
                if apply(&mut b, &op) {
                    view(&mut cx, &blob, &b, &mut out);
                    blob = b;
                }
            }
        }
        eprintln!("blobviews: {} views in {nhist} random histories", cx.events);
    }
    let _ = std::fs::remove_dir_all(&dir);
    out.finish();
}
