//! growth item X08: the streaming hasher chia_sha2::Sha256 under arbitrary chunkings, clone-and-continue,
//! and its incremental users (clvm_utils::tree_hash_atom / tree_hash_pair / tree_hash, Coin::coin_id).
//! Only records what the code did; every digest is recomputed and judged by TLC (Trace_Sha256Stream.tla).
use crate::sx::Sx;
use crate::util::*;
use chia_protocol::{Bytes32, Coin};
use chia_sha2::Sha256;
use clvm_utils::{tree_hash, tree_hash_atom, tree_hash_pair, TreeHash};
use clvmr::Allocator;
use rand::rngs::StdRng;
use rand::Rng;
use serde_json::{json, Value};
use std::panic::AssertUnwindSafe;

/// one history on real hashers; ops: ("u", hasher, data) ("c", hasher) ("f", hasher); hasher ids 1.. in creation order
enum Op {
    U(usize, Vec<u8>),
    C(usize),
    F(usize),
}

fn run_history(out: &mut Out, ops: Vec<Op>) {
    out.emit(&json!({"k": "reset"}));
    out.emit(&json!({"k": "new"}));
    let mut hs: Vec<Option<Sha256>> = vec![Some(Sha256::new())];
    for op in ops {
        match op {
            Op::U(i, data) => {
                let Some(Some(h)) = hs.get_mut(i - 1) else { continue };
                let r = catch(AssertUnwindSafe(|| h.update(&data)));
                out.emit(&json!({"k": "update", "h": i, "data": jbytes(&data), "panic": r.is_err()}));
            }
            Op::C(i) => {
                let Some(Some(h)) = hs.get(i - 1) else { continue };
                match catch(AssertUnwindSafe(|| h.clone())) {
                    Ok(c) => {
                        hs.push(Some(c));
                        out.emit(&json!({"k": "clone", "h": i, "panic": false}));
                    }
                    Err(_) => out.emit(&json!({"k": "clone", "h": i, "panic": true})),
                }
            }
            Op::F(i) => {
                let Some(slot) = hs.get_mut(i - 1) else { continue };
                let Some(h) = slot.take() else { continue };
                match catch(AssertUnwindSafe(|| h.finalize())) {
                    Ok(d) => out.emit(&json!({"k": "finalize", "h": i, "digest": jbytes(&d), "panic": false})),
                    Err(_) => out.emit(&json!({"k": "finalize", "h": i, "digest": [], "panic": true})),
                }
            }
        }
    }
}

const EDGE: [usize; 16] = [0, 0, 1, 1, 2, 55, 56, 57, 63, 64, 64, 65, 119, 120, 128, 129];

fn rand_chunk_len(r: &mut StdRng, remaining: usize) -> usize {
    let n = match r.random_range(0..10u32) {
        0..4 => EDGE[r.random_range(0..EDGE.len())],
        4..7 => r.random_range(0..=remaining.min(200)),
        7..9 => r.random_range(0..=remaining.min(5000)),
        _ => r.random_range(0..=remaining),
    };
    n.min(remaining)
}

/// a random history: hasher 1 absorbs about `total` bytes in random chunks; with probability 1/2 it is cloned at a
/// random point (possibly several times), every clone continues with its own data; hashers are finalized in random order
fn random_history(r: &mut StdRng, total: usize, big: bool) -> Vec<Op> {
    let mut ops = Vec::new();
    let mut live: Vec<(usize, usize)> = vec![(1, total)]; // (id, bytes still to absorb)
    let mut next_id = 2;
    let cloning = r.random::<bool>();
    while !live.is_empty() {
        let k = r.random_range(0..live.len());
        let (id, rem) = live[k];
        let roll = r.random_range(0..100u32);
        if cloning && roll < 8 && next_id <= (if big { 2 } else { 5 }) {
            ops.push(Op::C(id));
            live.push((next_id, r.random_range(0..=rem.max(70))));
            next_id += 1;
        } else if rem == 0 && roll < 60 {
            ops.push(Op::F(id));
            live.remove(k);
        } else {
            // long inputs: mostly long chunks (keeps the number of TLC states with a 1 MiB sequence small)
            let n = if big && r.random_range(0..10u32) < 6 { r.random_range(0..=rem) } else { rand_chunk_len(r, rem) };
            let data = if r.random_range(0..8u32) == 0 { vec![r.random::<u8>(); n] } else { rand_bytes(r, n) };
            ops.push(Op::U(id, data));
            live[k].1 = rem - n;
        }
    }
    ops
}

fn th(t: TreeHash) -> Value {
    jbytes(&t.to_bytes())
}

fn rand_sx(r: &mut StdRng, depth: u32) -> Sx {
    if depth == 0 || r.random_range(0..3u32) == 0 {
        let n = match r.random_range(0..6u32) {
            0 => 0,
            1 => 1,
            2 => EDGE[r.random_range(0..EDGE.len())],
            _ => r.random_range(0..40usize),
        };
        // small values 0..23 hit the PRECOMPUTED_HASHES table of tree_hash
        if n == 1 { Sx::atom(&[r.random_range(0..40u8)]) } else { Sx::atom(&rand_bytes(r, n)) }
    } else {
        Sx::cons(rand_sx(r, depth - 1), rand_sx(r, depth - 1))
    }
}

const AMOUNTS: [u64; 22] = [
    0, 1, 0x7f, 0x80, 0xff, 0x100, 0x7fff, 0x8000, 0x7f_ffff, 0x80_0000, 0x7fff_ffff, 0x8000_0000, 0x7f_ffff_ffff, 0x80_0000_0000,
    0x7fff_ffff_ffff, 0x8000_0000_0000, 0x7f_ffff_ffff_ffff, 0x80_0000_0000_0000, 0x7fff_ffff_ffff_ffff, 0x8000_0000_0000_0000, u64::MAX - 1, u64::MAX,
];

fn users(out: &mut Out, r: &mut StdRng, n: u64, uoff: usize) {
    for i in 0..n {
        // tree_hash_atom: update([1]); update(bytes)  - lengths around the padding boundaries shifted by the prefix byte
        let len = if i < 135 { i as usize + uoff } else { rand_chunk_len(r, 300) };
        let bytes = rand_bytes(r, len);
        match catch(AssertUnwindSafe(|| tree_hash_atom(&bytes))) {
            Ok(h) => out.emit(&json!({"k": "atom", "bytes": jbytes(&bytes), "hash": th(h)})),
            Err(m) => out.emit(&json!({"k": "panic", "what": "tree_hash_atom", "msg": m})),
        }
        // tree_hash_pair: update([2]); update(first); update(rest)  (65 bytes: straddles the block boundary)
        let a: [u8; 32] = r.random();
        let b: [u8; 32] = if i % 7 == 0 { a } else { r.random() };
        match catch(AssertUnwindSafe(|| tree_hash_pair(TreeHash::new(a), TreeHash::new(b)))) {
            Ok(h) => out.emit(&json!({"k": "pair", "first": jbytes(&a), "rest": jbytes(&b), "hash": th(h)})),
            Err(m) => out.emit(&json!({"k": "panic", "what": "tree_hash_pair", "msg": m})),
        }
        // Coin::coin_id: update(parent); update(puzzle_hash); [update([0]);] update(amount bytes)
        let amount = if (i as usize) < AMOUNTS.len() { AMOUNTS[i as usize] } else { r.random::<u64>() >> r.random_range(0..64u32) };
        let p: [u8; 32] = r.random();
        let ph: [u8; 32] = r.random();
        match catch(AssertUnwindSafe(|| Coin::new(Bytes32::new(p), Bytes32::new(ph), amount).coin_id())) {
            Ok(id) => out.emit(&json!({"k": "coinid", "parent": jbytes(&p), "ph": jbytes(&ph), "amount": bignat_u64(amount), "id": jbytes(&id.to_bytes())})),
            Err(m) => out.emit(&json!({"k": "panic", "what": "coin_id", "msg": m})),
        }
        // tree_hash of a whole tree (atoms through the allocator, small atoms through the precomputed table)
        if i % 4 == 0 {
            let x = rand_sx(r, 4);
            let res = catch(AssertUnwindSafe(|| {
                let mut a = Allocator::new();
                let n = x.to_node(&mut a);
                tree_hash(&a, n)
            }));
            match res {
                Ok(h) => out.emit(&json!({"k": "tree", "x": x.to_jsonf(), "hash": th(h)})),
                Err(m) => out.emit(&json!({"k": "panic", "what": "tree_hash", "msg": m})),
            }
        }
    }
}

pub fn record(args: &Args) {
    let mut r = rng(args.u64("seed", 1));
    let mut out = Out::create(args.req("out"));
    let mut ncases = 0;
    if let Some(path) = args.get("cases") {
        // G + R: TLC-generated histories (lengths and structure from the model, data seeded random)
        for c in read_ndjson(path) {
            let mut ops = Vec::new();
            for o in c["ops"].as_array().cloned().unwrap_or_default() {
                let i = o[1].as_u64().unwrap_or(1) as usize;
                match o[0].as_str().unwrap_or("") {
                    "u" => ops.push(Op::U(i, rand_bytes(&mut r, o[2].as_u64().unwrap_or(0) as usize))),
                    "c" => ops.push(Op::C(i)),
                    _ => ops.push(Op::F(i)),
                }
            }
            run_history(&mut out, ops);
            ncases += 1;
        }
    }
    // T: seeded random histories: small (pure definition in TLC), medium, and a few up to 1 MiB
    for _ in 0..args.u64("small", 0) {
        let total = if r.random::<bool>() { EDGE[r.random_range(0..EDGE.len())] + 64 * r.random_range(0..2usize) } else { r.random_range(0..200usize) };
        let ops = random_history(&mut r, total, false);
        run_history(&mut out, ops);
    }
    for _ in 0..args.u64("medium", 0) {
        let total = r.random_range(200..20000usize);
        let ops = random_history(&mut r, total, false);
        run_history(&mut out, ops);
    }
    for j in 0..args.u64("big", 0) {
        let total = if j == 0 { 1 << 20 } else { r.random_range(100_000..=(1usize << 20)) };
        let ops = random_history(&mut r, total, true);
        run_history(&mut out, ops);
    }
    users(&mut out, &mut r, args.u64("users", 0), args.u64("uoff", 0) as usize);
    let n = out.finish();
    println!("{}", json!({"events": n, "cases": ncases}));
}
