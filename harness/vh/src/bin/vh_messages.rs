#![allow(irrefutable_let_patterns, dead_code)]
#[path = "../util.rs"]
mod util;
#[path = "../sx.rs"]
mod sx;
#[path = "../messages.rs"]
mod messages;

fn main() {
    let argv: Vec<String> = std::env::args().collect();
    if argv.len() < 2 {
        eprintln!("usage: <bin> <domain> [--key value ...]");
        std::process::exit(2);
    }
    std::panic::set_hook(Box::new(|info| {
        if !util::QUIET.with(|q| q.get()) {
            eprintln!("harness panic: {info}");
        }
    }));
    let args = util::Args::parse(&argv[2..]);
    // deep S-expressions recurse deeply: run on a thread with a large stack
    let h = std::thread::Builder::new().stack_size(2 << 30).spawn(move || messages::record(&args)).expect("spawn");
    if h.join().is_err() { std::process::exit(101); }
}
