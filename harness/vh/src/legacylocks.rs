//! X03 (growth): check_time_locks in both modes (nowrap = saturating / legacy = wrapping) and
//! OwnedSpendBundleConditions::from as a projection of the borrowed SpendBundleConditions.
//!
//! Events (vocabulary of spec/LegacyLocks.tla):
//!   lat   a TLC lattice case: summary + chain axes + predicted error codes of both modes in every
//!         chain state; the harness runs them all, counts disagreements with the prediction (nmis)
//!         and logs a sample of chain states with the observed codes
//!   rnd   seeded random summary, chain states next to the exact / wrapped thresholds
//!   tree  lock bundle -> parse_spends -> OwnedSpendBundleConditions -> both modes
//!   own   borrowed vs owned summary of an accepted bundle + Streamable bytes / hash / round trips
//!   probe representation probes (no claim)
//! The harness never judges (except the count of prediction disagreements, which TLC requires to
//! be 0); error codes: 0 = Ok, -1 = panic, otherwise the numeric ErrorCode.
use crate::conditions::*;
use crate::sx::*;
use crate::util::*;
use chia_bls::Signature;
use chia_consensus::check_time_locks::check_time_locks;
use chia_consensus::conditions::{parse_spends, EmptyVisitor, MempoolVisitor, SpendBundleConditions, SpendConditions};
use chia_consensus::flags::ConsensusFlags;
use chia_consensus::owned_conditions::{OwnedSpendBundleConditions, OwnedSpendConditions};
use chia_protocol::{Bytes32, Coin, CoinRecord};
use chia_traits::Streamable;
use clvmr::allocator::NodePtr;
use clvmr::Allocator;
use rand::rngs::StdRng;
use rand::Rng;
use serde_json::{json, Value};
use std::collections::HashMap;
use std::panic::AssertUnwindSafe;

const M32: u64 = 0xffff_ffff;
const M64: u64 = u64::MAX;

// ---------------------------------------------------------------------------------------------
// part 1: summaries built directly (all fields of the owned form are public)
// ---------------------------------------------------------------------------------------------

#[derive(Clone)]
struct Birth {
    known: bool,
    h: u32,
    s: u64,
}

#[derive(Clone)]
struct Chain {
    prev: u32,
    ts: u64,
    births: Vec<Birth>,
}

fn jopt32(v: &Value) -> Option<u32> {
    v.as_array().and_then(|a| a.first()).map(|x| bignat_to_u128(x) as u32)
}
fn jopt64(v: &Value) -> Option<u64> {
    v.as_array().and_then(|a| a.first()).map(|x| bignat_to_u128(x) as u64)
}
fn o32(v: Option<u32>) -> Value {
    match v {
        None => json!([]),
        Some(x) => json!([bignat_u64(x as u64)]),
    }
}
fn o64(v: Option<u64>) -> Value {
    match v {
        None => json!([]),
        Some(x) => json!([bignat_u64(x)]),
    }
}

fn coin_id_of(i: usize) -> Bytes32 {
    Bytes32::from([(i + 1) as u8; 32])
}

fn agg_from_json(a: &Value) -> OwnedSpendBundleConditions {
    let mut o = OwnedSpendBundleConditions {
        height_absolute: bignat_to_u128(&a["ha"]) as u32,
        seconds_absolute: bignat_to_u128(&a["sa"]) as u64,
        before_height_absolute: jopt32(&a["bha"]),
        before_seconds_absolute: jopt64(&a["bsa"]),
        ..Default::default()
    };
    for (i, s) in a["spends"].as_array().cloned().unwrap_or_default().iter().enumerate() {
        o.spends.push(OwnedSpendConditions {
            coin_id: coin_id_of(i),
            birth_height: jopt32(&s["bh"]),
            birth_seconds: jopt64(&s["bs"]),
            height_relative: jopt32(&s["hr"]),
            seconds_relative: jopt64(&s["sr"]),
            before_height_relative: jopt32(&s["bhr"]),
            before_seconds_relative: jopt64(&s["bsr"]),
            ..Default::default()
        });
    }
    o
}

/// the lock fields of the struct that was actually handed to check_time_locks
fn agg_json(o: &OwnedSpendBundleConditions) -> Value {
    json!({
        "ha": bignat_u64(o.height_absolute as u64), "sa": bignat_u64(o.seconds_absolute),
        "bha": o32(o.before_height_absolute), "bsa": o64(o.before_seconds_absolute),
        "spends": Value::Array(o.spends.iter().map(|s| json!({
            "bh": o32(s.birth_height), "bs": o64(s.birth_seconds), "hr": o32(s.height_relative), "sr": o64(s.seconds_relative),
            "bhr": o32(s.before_height_relative), "bsr": o64(s.before_seconds_relative)})).collect()),
    })
}

fn records(o: &OwnedSpendBundleConditions, ch: &Chain) -> HashMap<Bytes32, CoinRecord> {
    let mut recs: HashMap<Bytes32, CoinRecord> = HashMap::new();
    for (i, s) in o.spends.iter().enumerate() {
        if let Some(b) = ch.births.get(i) {
            if b.known {
                recs.insert(s.coin_id, CoinRecord::new(Coin::new(s.parent_id, s.puzzle_hash, s.coin_amount), b.h, 0, false, b.s));
            }
        }
    }
    recs
}

fn code_of(r: Result<Result<(), chia_consensus::validation_error::ValidationErr>, String>) -> i64 {
    match r {
        Ok(Ok(())) => 0,
        Ok(Err(e)) => err_code(&e) as i64,
        Err(_) => -1,
    }
}

/// (nowrap code, legacy code)
fn run_modes(o: &OwnedSpendBundleConditions, ch: &Chain) -> (i64, i64) {
    let recs = records(o, ch);
    let a = code_of(catch(AssertUnwindSafe(|| check_time_locks(&recs, o, ch.prev, ch.ts, true))));
    let b = code_of(catch(AssertUnwindSafe(|| check_time_locks(&recs, o, ch.prev, ch.ts, false))));
    (a, b)
}

fn chain_json(ch: &Chain, codes: (i64, i64)) -> Value {
    json!({"prevH": bignat_u64(ch.prev as u64), "ts": bignat_u64(ch.ts),
           "births": Value::Array(ch.births.iter().map(|b| json!({"known": b.known, "h": bignat_u64(b.h as u64), "s": bignat_u64(b.s)})).collect()),
           "nowrap": codes.0, "legacy": codes.1})
}

fn axis32(v: &Value) -> Vec<u32> {
    v.as_array().map(|a| a.iter().map(|x| bignat_to_u128(x) as u32).collect()).unwrap_or_default()
}
fn axis64(v: &Value) -> Vec<u64> {
    v.as_array().map(|a| a.iter().map(|x| bignat_to_u128(x) as u64).collect()).unwrap_or_default()
}

fn lat_event(c: &Value, r: &mut StdRng, nsample: usize) -> Value {
    let o = agg_from_json(&c["agg"]);
    let known: Vec<bool> = c["known"].as_array().map(|a| a.iter().map(|x| x.as_bool().unwrap_or(true)).collect()).unwrap_or_default();
    let (ph, ts, bh, bs, bh2, bs2) = (axis32(&c["ph"]), axis64(&c["ts"]), axis32(&c["bh"]), axis64(&c["bs"]), axis32(&c["bh2"]), axis64(&c["bs2"]));
    let want_n: Vec<i64> = c["nowrap"].as_array().map(|a| a.iter().map(|x| x.as_i64().unwrap_or(-9)).collect()).unwrap_or_default();
    let want_l: Vec<i64> = c["legacy"].as_array().map(|a| a.iter().map(|x| x.as_i64().unwrap_or(-9)).collect()).unwrap_or_default();
    let mut all: Vec<(Chain, (i64, i64))> = Vec::new();
    // index order of the case: ph, ts, bh, bs (last fastest)
    for p in &ph {
        for t in &ts {
            for (i3, h) in bh.iter().enumerate() {
                for (i4, s) in bs.iter().enumerate() {
                    let mut births = Vec::new();
                    for k in 0..o.spends.len() {
                        let (hh, ss) = if k == 0 { (*h, *s) } else { (bh2[i3], bs2[i4]) };
                        births.push(Birth { known: known.get(k).copied().unwrap_or(true), h: hh, s: ss });
                    }
                    let ch = Chain { prev: *p, ts: *t, births };
                    let codes = run_modes(&o, &ch);
                    all.push((ch, codes));
                }
            }
        }
    }
    let mut nmis = 0usize;
    let mut npanic = 0usize;
    let mut mis = Vec::new();
    let mut differ: Vec<usize> = Vec::new();
    if want_n.len() != all.len() || want_l.len() != all.len() {
        nmis += 1;
        mis.push(json!({"i": 0, "why": "length", "got": all.len(), "want": want_n.len()}));
    }
    for (i, (_, codes)) in all.iter().enumerate() {
        if codes.0 == -1 || codes.1 == -1 {
            npanic += 1;
        }
        let w = (want_n.get(i).copied().unwrap_or(-9), want_l.get(i).copied().unwrap_or(-9));
        if w != *codes {
            nmis += 1;
            if mis.len() < 5 {
                mis.push(json!({"i": i + 1, "got": [codes.0, codes.1], "want": [w.0, w.1]}));
            }
        }
        if codes.0 != codes.1 {
            differ.push(i);
        }
    }
    // sample: disagreements with the prediction first, then points where the modes differ, then random points
    let mut idx: Vec<usize> = Vec::new();
    for m in &mis {
        if let Some(i) = m["i"].as_u64() {
            if i > 0 && idx.len() < 2 {
                idx.push(i as usize - 1);
            }
        }
    }
    for _ in 0..(nsample / 2) {
        if !differ.is_empty() {
            idx.push(differ[r.random_range(0..differ.len())]);
        }
    }
    while idx.len() < nsample && !all.is_empty() {
        idx.push(r.random_range(0..all.len()));
    }
    idx.sort_unstable();
    idx.dedup();
    let sample: Vec<Value> = idx.iter().map(|i| chain_json(&all[*i].0, all[*i].1)).collect();
    json!({"k": "lat", "agg": agg_json(&o), "n": all.len(), "ndiffer": differ.len(), "nmis": nmis, "npanic": npanic, "mis": mis, "sample": sample})
}

fn bval32(r: &mut StdRng) -> u32 {
    match r.random_range(0..10) {
        0..=2 => r.random_range(0..4),
        3..=5 => (M32 - r.random_range(0..4u64)) as u32,
        6 => r.random_range(0..100_000),
        7 => 0x8000_0000u32.wrapping_add(r.random_range(0..3)).wrapping_sub(1),
        8 => (M32 - r.random_range(0..100_000u64)) as u32,
        _ => r.random::<u32>(),
    }
}
fn bval64(r: &mut StdRng) -> u64 {
    match r.random_range(0..10) {
        0..=2 => r.random_range(0..4),
        3..=5 => M64 - r.random_range(0..4u64),
        6 => r.random_range(0..10_000_000),
        7 => 0x8000_0000_0000_0000u64.wrapping_add(r.random_range(0..3)).wrapping_sub(1),
        8 => M64 - r.random_range(0..10_000_000u64),
        _ => r.random::<u64>() >> r.random_range(0..64u32),
    }
}

fn rnd_event(r: &mut StdRng, nchains: usize) -> Value {
    let p = |r: &mut StdRng, n: u32| r.random_range(0..n) == 0;
    let mut o = OwnedSpendBundleConditions::default();
    if p(r, 4) {
        o.height_absolute = bval32(r);
    }
    if p(r, 4) {
        o.seconds_absolute = bval64(r);
    }
    if p(r, 5) {
        o.before_height_absolute = Some(bval32(r));
    }
    if p(r, 5) {
        o.before_seconds_absolute = Some(bval64(r));
    }
    let ns = r.random_range(0..=3usize);
    for i in 0..ns {
        let mut s = OwnedSpendConditions { coin_id: coin_id_of(i), ..Default::default() };
        if p(r, 3) {
            s.height_relative = Some(bval32(r));
        }
        if p(r, 3) {
            s.seconds_relative = Some(bval64(r));
        }
        if p(r, 3) {
            s.before_height_relative = Some(bval32(r));
        }
        if p(r, 3) {
            s.before_seconds_relative = Some(bval64(r));
        }
        if p(r, 5) {
            s.birth_height = Some(bval32(r));
        }
        if p(r, 5) {
            s.birth_seconds = Some(bval64(r));
        }
        o.spends.push(s);
    }
    let mut sample = Vec::new();
    for _ in 0..nchains {
        let mut births = Vec::new();
        for s in &o.spends {
            let h = match (s.birth_height, r.random_range(0..3)) {
                (Some(b), 0) | (Some(b), 1) => b,
                _ => bval32(r),
            };
            let t = match (s.birth_seconds, r.random_range(0..3)) {
                (Some(b), 0) | (Some(b), 1) => b,
                _ => bval64(r),
            };
            births.push(Birth { known: r.random_range(0..12) != 0, h, s: t });
        }
        // thresholds the checks compare with: absolute values, exact sums (clamped), wrapped sums
        let mut th32: Vec<u64> = vec![o.height_absolute as u64];
        let mut th64: Vec<u128> = vec![o.seconds_absolute as u128];
        if let Some(v) = o.before_height_absolute {
            th32.push(v as u64);
        }
        if let Some(v) = o.before_seconds_absolute {
            th64.push(v as u128);
        }
        for (s, b) in o.spends.iter().zip(births.iter()) {
            for v in [s.height_relative, s.before_height_relative].into_iter().flatten() {
                th32.push((b.h as u64 + v as u64).min(M32));
                th32.push(b.h.wrapping_add(v) as u64);
            }
            for v in [s.seconds_relative, s.before_seconds_relative].into_iter().flatten() {
                th64.push((b.s as u128 + v as u128).min(M64 as u128));
                th64.push(b.s.wrapping_add(v) as u128);
            }
        }
        let d: i128 = r.random_range(-1..=1);
        let prev = if r.random_range(0..5) == 0 { bval32(r) } else { (th32[r.random_range(0..th32.len())] as i128 + d).clamp(0, M32 as i128) as u32 };
        let d: i128 = r.random_range(-1..=1);
        let ts = if r.random_range(0..5) == 0 { bval64(r) } else { (th64[r.random_range(0..th64.len())] as i128 + d).clamp(0, M64 as i128) as u64 };
        let ch = Chain { prev, ts, births };
        let codes = run_modes(&o, &ch);
        sample.push(chain_json(&ch, codes));
    }
    json!({"k": "rnd", "agg": agg_json(&o), "sample": sample})
}

// ---------------------------------------------------------------------------------------------
// tree events: the real path parse_spends -> owned summary -> check_time_locks
// ---------------------------------------------------------------------------------------------

fn signed_atom(r: &mut StdRng, height: bool) -> Sx {
    // canonical encodings; biased to values whose sum with a birth overflows the type
    let m: i128 = if height { M32 as i128 } else { M64 as i128 };
    let v: i128 = match r.random_range(0..12) {
        0..=2 => r.random_range(0..4),
        3..=6 => m - r.random_range(0..4i128),
        7 => m + 1,
        8 => -(r.random_range(1..200i128)),
        9 => r.random_range(0..100_000),
        10 => m - r.random_range(0..100_000i128),
        _ => {
            let bits = r.random_range(1..72u32);
            (r.random::<u128>() >> (128 - bits)) as i128
        }
    };
    let b = if v == 0 { vec![] } else { num_bigint::BigInt::from(v).to_signed_bytes_be() };
    Sx::A(b)
}

fn random_lock_tree(r: &mut StdRng, hashes: &[Vec<u8>]) -> Sx {
    let n = r.random_range(1..=3usize);
    let mut spends: Vec<(Vec<u8>, Vec<u8>, u128, Vec<Sx>)> = Vec::new();
    for i in 0..n {
        let (parent, ph, amt) = if i > 0 && r.random_range(0..5) == 0 {
            let j = r.random_range(0..i);
            let pid = sha256(&[&spends[j].0, &spends[j].1, &enc_uint(spends[j].2)]);
            let ph = hashes[r.random_range(0..hashes.len())].clone();
            let amt = 7u128 + i as u128;
            if r.random_range(0..5) != 0 {
                spends[j].3.push(Sx::list(vec![Sx::A(vec![51]), Sx::A(ph.clone()), Sx::uint(amt)]));
            }
            (pid, ph, amt)
        } else {
            (hashes[i].clone(), hashes[r.random_range(0..hashes.len())].clone(), 1000 + i as u128)
        };
        spends.push((parent, ph, amt, vec![]));
    }
    // "after" kinds dominate: "before" kinds with a small argument make most chain states fail early
    let ops = [80u8, 82, 80, 82, 81, 83, 84, 86, 85, 87, 74, 75];
    for s in &mut spends {
        let k = r.random_range(0..=3usize);
        for _ in 0..k {
            let op = ops[r.random_range(0..ops.len())];
            let height = matches!(op, 82 | 83 | 86 | 87 | 75);
            s.3.push(Sx::list(vec![Sx::A(vec![op]), signed_atom(r, height)]));
        }
    }
    Sx::list(vec![Sx::list(
        spends.into_iter().map(|(p, z, a, c)| Sx::list(vec![Sx::A(p), Sx::A(z), Sx::uint(a), Sx::list(c)])).collect(),
    )])
}

fn tree_chains(o: &OwnedSpendBundleConditions, r: &mut StdRng, count: usize) -> Vec<Chain> {
    let mut out = Vec::new();
    for _ in 0..count {
        // mostly consistent chain states (birth <= now < MAX); now next to the exact or the wrapped threshold
        let mut births: Vec<Birth> = Vec::new();
        for s in &o.spends {
            let h = match (s.birth_height, r.random_range(0..4)) {
                (Some(b), 0..=2) => b,
                _ => [0u32, 1, 2, 3, 100, r.random_range(0..100_000), (M32 - 3) as u32][r.random_range(0..7usize)],
            };
            let t = match (s.birth_seconds, r.random_range(0..4)) {
                (Some(b), 0..=2) => b,
                _ => [0u64, 1, 2, 3, 1_000_000, r.random_range(0..10_000_000), M64 - 3][r.random_range(0..7usize)],
            };
            births.push(Birth { known: true, h, s: t });
        }
        let mut th32: Vec<u64> = vec![o.height_absolute as u64, 0, 5];
        let mut th64: Vec<u128> = vec![o.seconds_absolute as u128, 0, 5];
        if let Some(v) = o.before_height_absolute {
            th32.push(v as u64);
        }
        if let Some(v) = o.before_seconds_absolute {
            th64.push(v as u128);
        }
        for (s, b) in o.spends.iter().zip(births.iter()) {
            th32.push(b.h as u64);
            th64.push(b.s as u128);
            for v in [s.height_relative, s.before_height_relative].into_iter().flatten() {
                th32.push((b.h as u64 + v as u64).min(M32));
                th32.push(b.h.wrapping_add(v) as u64);
            }
            for v in [s.seconds_relative, s.before_seconds_relative].into_iter().flatten() {
                th64.push((b.s as u128 + v as u128).min(M64 as u128));
                th64.push(b.s.wrapping_add(v) as u128);
            }
        }
        let consistent = r.random_range(0..8) != 0;
        let d: i128 = r.random_range(-1..=2);
        let mut prev = (th32[r.random_range(0..th32.len())] as i128 + d).clamp(0, M32 as i128) as u32;
        let d: i128 = r.random_range(-1..=2);
        let mut ts = (th64[r.random_range(0..th64.len())] as i128 + d).clamp(0, M64 as i128) as u64;
        if consistent {
            prev = prev.min((M32 - 1) as u32);
            ts = ts.min(M64 - 1);
            let (mh, ms) = (births.iter().map(|b| b.h).max().unwrap_or(0), births.iter().map(|b| b.s).max().unwrap_or(0));
            // keep the chosen threshold when it lies above the births, otherwise lift now to the youngest birth
            if prev < mh {
                prev = if r.random::<bool>() { mh.min((M32 - 1) as u32) } else { prev };
            }
            if ts < ms {
                ts = if r.random::<bool>() { ms.min(M64 - 1) } else { ts };
            }
            for b in &mut births {
                b.h = b.h.min(prev);
                b.s = b.s.min(ts);
            }
        }
        out.push(Chain { prev, ts, births });
    }
    out
}

fn chains_from_json(v: &Value) -> Vec<Chain> {
    v.as_array()
        .map(|a| {
            a.iter()
                .map(|c| Chain {
                    prev: bignat_to_u128(&c["prevH"]) as u32,
                    ts: bignat_to_u128(&c["ts"]) as u64,
                    births: c["births"]
                        .as_array()
                        .map(|b| b.iter().map(|x| Birth { known: x["known"].as_bool().unwrap_or(true), h: bignat_to_u128(&x["h"]) as u32, s: bignat_to_u128(&x["s"]) as u64 }).collect())
                        .unwrap_or_default(),
                })
                .collect()
        })
        .unwrap_or_default()
}

/// re-run recorded events on the current tree (driver: bin/check X03 --replay)
fn replay_event(e: &Value, r: &mut StdRng, consts: &Consts) -> Option<Value> {
    match e["k"].as_str() {
        Some("lat") | Some("rnd") => {
            let o = agg_from_json(&e["agg"]);
            let sample: Vec<Value> = chains_from_json(&e["sample"]).iter().map(|ch| chain_json(ch, run_modes(&o, ch))).collect();
            Some(json!({"k": "rnd", "agg": agg_json(&o), "sample": sample}))
        }
        Some("tree") => Some(tree_event_with(&Sx::from_json(&e["tree"]), r, 0, consts, Some(chains_from_json(&e["chains"])))),
        Some("own") if e.get("tree").is_some() => {
            let flags = names_from_json(&e["flags"]);
            let ps = e["pseed"].as_str().and_then(|x| x.parse::<u64>().ok());
            let d = &e["consts"];
            let cc = if d.get("me").is_some() {
                Consts::from_doms([
                    from_jbytes(&d["me"]), from_jbytes(&d["parent"]), from_jbytes(&d["puzzle"]), from_jbytes(&d["amount"]),
                    from_jbytes(&d["puzzle_amount"]), from_jbytes(&d["parent_amount"]), from_jbytes(&d["parent_puzzle"]),
                ])
            } else {
                Consts::from_doms(consts.doms.clone())
            };
            Some(own_event(&Sx::from_json(&e["tree"]), &flags, e["vis"].as_str() == Some("mempool"), &cc, "replay", ps))
        }
        Some("probe") => Some(hint_repr_probe(consts)),
        _ => None,
    }
}

fn tree_event(tree: &Sx, r: &mut StdRng, nchains: usize, consts: &Consts) -> Value {
    tree_event_with(tree, r, nchains, consts, None)
}

fn tree_event_with(tree: &Sx, r: &mut StdRng, nchains: usize, consts: &Consts, fixed: Option<Vec<Chain>>) -> Value {
    let mut a = Allocator::new();
    let n = tree.to_node(&mut a);
    let sig = Signature::default();
    let flags = ConsensusFlags::DONT_VALIDATE_SIGNATURE;
    let parsed = catch(AssertUnwindSafe(|| {
        parse_spends::<EmptyVisitor>(&a, n, 11_000_000_000, 0, flags, &sig, None, &consts.c).map(|c| OwnedSpendBundleConditions::from(&a, c))
    }));
    match parsed {
        Err(p) => json!({"k": "tree", "tree": tree.to_jsonf(), "parse_ok": false, "panic": true, "msg": p, "chains": []}),
        Ok(Err(e)) => json!({"k": "tree", "tree": tree.to_jsonf(), "parse_ok": false, "panic": false, "errname": err_name(&e), "chains": []}),
        Ok(Ok(o)) => {
            let chains = match fixed {
                Some(c) => c,
                None => tree_chains(&o, r, nchains),
            };
            let cj: Vec<Value> = chains.iter().map(|ch| chain_json(ch, run_modes(&o, ch))).collect();
            json!({"k": "tree", "tree": tree.to_jsonf(), "parse_ok": true, "panic": false, "r": summary_json(&o), "chains": cj})
        }
    }
}

// ---------------------------------------------------------------------------------------------
// part 2: borrowed vs owned
// ---------------------------------------------------------------------------------------------

fn atom_bytes(a: &Allocator, n: NodePtr) -> Vec<u8> {
    a.atom(n).as_ref().to_vec()
}

fn bpkm(a: &Allocator, v: &[(chia_bls::PublicKey, NodePtr)]) -> Value {
    Value::Array(v.iter().map(|(pk, m)| json!({"pk": jbytes(&pk.to_bytes()), "msg": jbytes(&atom_bytes(a, *m))})).collect())
}

/// the borrowed summary read by the harness itself (node pointers resolved through the allocator)
fn borrowed_spend_json(a: &Allocator, s: &SpendConditions) -> Value {
    json!({
        "id": jbytes(s.coin_id.as_ref().as_ref()), "parent": jbytes(&atom_bytes(a, s.parent_id)), "ph": jbytes(&atom_bytes(a, s.puzzle_hash)),
        "amt": bignat_u64(s.coin_amount),
        "hr": o32(s.height_relative), "sr": o64(s.seconds_relative), "bhr": o32(s.before_height_relative), "bsr": o64(s.before_seconds_relative),
        "bh": o32(s.birth_height), "bs": o64(s.birth_seconds),
        "cc": Value::Array(s.create_coin.iter().map(|c| json!({
            "ph": jbytes(c.puzzle_hash.as_ref()), "amt": bignat_u64(c.amount), "hint": jbytes(&atom_bytes(a, c.hint)), "hint_nil": c.hint == a.nil()})).collect()),
        "me": bpkm(a, &s.agg_sig_me), "parent_sigs": bpkm(a, &s.agg_sig_parent), "puzzle": bpkm(a, &s.agg_sig_puzzle),
        "amount": bpkm(a, &s.agg_sig_amount), "puzzle_amount": bpkm(a, &s.agg_sig_puzzle_amount),
        "parent_amount": bpkm(a, &s.agg_sig_parent_amount), "parent_puzzle": bpkm(a, &s.agg_sig_parent_puzzle),
        "flags": bignat_u64(s.flags as u64), "ccost": bignat_u64(s.condition_cost), "ecost": bignat_u64(s.execution_cost), "fp": jbytes(&s.fingerprint),
    })
}

fn borrowed_json(a: &Allocator, c: &SpendBundleConditions) -> Value {
    json!({
        "spends": Value::Array(c.spends.iter().map(|s| borrowed_spend_json(a, s)).collect()),
        "fee": bignat_u64(c.reserve_fee), "ha": bignat_u64(c.height_absolute as u64), "sa": bignat_u64(c.seconds_absolute),
        "bha": o32(c.before_height_absolute), "bsa": o64(c.before_seconds_absolute),
        "unsafe": bpkm(a, &c.agg_sig_unsafe),
        "cost": bignat_u64(c.cost), "ccost": bignat_u64(c.condition_cost), "ecost": bignat_u64(c.execution_cost),
        "rem": bignat_u128(c.removal_amount), "add": bignat_u128(c.addition_amount), "vsig": c.validated_signature,
        "natoms": bignat_u128(a.atom_count() as u128), "npairs": bignat_u128(a.pair_count() as u128), "heap": bignat_u128(a.allocated_heap_size() as u128),
    })
}

fn owned_json(o: &OwnedSpendBundleConditions) -> Value {
    let mut v = summary_json(o);
    // flags as BigNat (a u32 does not fit a TLC integer)
    for (i, s) in o.spends.iter().enumerate() {
        v["spends"][i]["flags"] = bignat_u64(s.flags as u64);
    }
    v["natoms"] = bignat_u64(o.num_atoms as u64);
    v["npairs"] = bignat_u64(o.num_pairs as u64);
    v["heap"] = bignat_u64(o.heap_size as u64);
    let enc = catch(AssertUnwindSafe(|| o.to_bytes()));
    match enc {
        Ok(Ok(bytes)) => {
            v["enc_r"] = json!("ok");
            v["hash"] = match catch(AssertUnwindSafe(|| o.hash())) {
                Ok(h) => jbytes(&h),
                Err(_) => json!("panic"),
            };
            let rt = |trusted: bool| -> &'static str {
                let back = catch(AssertUnwindSafe(|| {
                    if trusted { OwnedSpendBundleConditions::from_bytes_unchecked(&bytes) } else { OwnedSpendBundleConditions::from_bytes(&bytes) }
                }));
                match back {
                    Err(_) => "panic",
                    Ok(Err(_)) => "err",
                    Ok(Ok(v2)) => {
                        if &v2 == o {
                            "ok"
                        } else {
                            "neq"
                        }
                    }
                }
            };
            v["rt"] = json!(rt(false));
            v["rtu"] = json!(rt(true));
            v["enc"] = jbytes(&bytes);
        }
        Ok(Err(_)) => {
            v["enc_r"] = json!("err");
        }
        Err(_) => {
            v["enc_r"] = json!("panic");
        }
    }
    v
}

/// `from` accepts any SpendBundleConditions (all fields are public): overwrite the fields that
/// parse_spends leaves at their defaults (fingerprint, execution costs, signature flag) and flip the
/// dedup bit, so that every field-copy and the fingerprint rule see distinctive values.
fn perturb(c: &mut SpendBundleConditions, seed: u64) {
    let mut r = rng(seed);
    let big = |r: &mut StdRng| -> u64 {
        match r.random_range(0..4) {
            0 => M64 - r.random_range(0..3u64),
            1 => r.random_range(0..1000),
            _ => r.random::<u64>(),
        }
    };
    for s in &mut c.spends {
        s.fingerprint = std::array::from_fn(|_| r.random::<u8>());
        if r.random_range(0..2) == 0 {
            s.flags ^= 1;
        }
        if r.random_range(0..4) == 0 {
            s.flags |= 1 << r.random_range(1..32u32);
        }
        s.execution_cost = big(&mut r);
        if r.random_range(0..3) == 0 {
            s.condition_cost = big(&mut r);
        }
    }
    c.execution_cost = big(&mut r);
    c.validated_signature = r.random::<bool>();
    if r.random_range(0..3) == 0 {
        c.cost = big(&mut r);
        c.reserve_fee = big(&mut r);
        c.removal_amount = u128::MAX - r.random_range(0..1000u128);
        c.addition_amount = (big(&mut r) as u128) << r.random_range(0..64u32);
    }
}

fn own_event(tree: &Sx, flag_names: &[String], mempool: bool, consts: &Consts, src: &str, perturb_seed: Option<u64>) -> Value {
    let flags = flags_from_names(flag_names);
    let res = catch(AssertUnwindSafe(|| {
        let mut a = Allocator::new();
        let n = tree.to_node(&mut a);
        let sig = Signature::default();
        let r = if mempool {
            parse_spends::<MempoolVisitor>(&a, n, 11_000_000_000, 0, flags, &sig, None, &consts.c)
        } else {
            parse_spends::<EmptyVisitor>(&a, n, 11_000_000_000, 0, flags, &sig, None, &consts.c)
        };
        match r {
            Ok(mut c) => {
                if let Some(ps) = perturb_seed {
                    perturb(&mut c, ps);
                }
                let b = borrowed_json(&a, &c);
                let o = OwnedSpendBundleConditions::from(&a, c);
                json!({"ok": true, "b": b, "o": owned_json(&o)})
            }
            Err(e) => json!({"ok": false, "errname": err_name(&e)}),
        }
    }));
    let mut ev = match res {
        Ok(v) => v,
        Err(p) => json!({"ok": false, "panic": true, "msg": p}),
    };
    if ev.get("panic").is_none() {
        ev["panic"] = json!(false);
    }
    ev["k"] = json!("own");
    ev["src"] = json!(src);
    ev["perturbed"] = json!(perturb_seed.is_some());
    // u64 seeds are logged as strings (a TLC integer has 32 bits)
    ev["pseed"] = json!(perturb_seed.map(|x| x.to_string()).unwrap_or_default());
    ev["flags"] = json!(flag_names);
    ev["vis"] = json!(if mempool { "mempool" } else { "empty" });
    ev["consts"] = consts.to_json();
    if ev["ok"].as_bool() == Some(true) {
        ev["tree"] = tree.to_jsonf();
    }
    ev
}

/// The same S-expression value with the (empty) hint atom in different allocator representations:
/// the nil node, new_atom(&[]) and a zero-length substring of a heap atom (what `(substr x n n)` yields).
fn hint_repr_probe(consts: &Consts) -> Value {
    let mut variants = Vec::new();
    for how in ["nil", "new_atom", "substr", "clvm_substr"] {
        let res = catch(AssertUnwindSafe(|| {
            let mut a = Allocator::new();
            let big = a.new_atom(&[9u8; 40]).expect("atom");
            let nil = a.nil();
            let conds = if how == "clvm_substr" {
                // the condition list as the output of a CLVM program: the hint is (substr BIG 7 7)
                let q = |x: Sx| Sx::cons(Sx::A(vec![1]), x);
                let c = |x: Sx, y: Sx| Sx::list(vec![Sx::A(vec![4]), x, y]);
                let hint = Sx::list(vec![Sx::A(vec![12]), q(Sx::A(vec![9u8; 40])), q(Sx::A(vec![7])), q(Sx::A(vec![7]))]);
                let memos = c(hint, q(Sx::nil()));
                let cond = c(q(Sx::A(vec![51])), c(q(Sx::A(vec![4u8; 32])), c(q(Sx::A(vec![1])), c(memos, q(Sx::nil())))));
                let prog = c(cond, q(Sx::nil())).to_node(&mut a);
                let dialect = clvmr::chia_dialect::ChiaDialect::new(ConsensusFlags::empty().to_clvm_flags());
                match clvmr::run_program::run_program(&mut a, &dialect, prog, nil, 1_000_000) {
                    Ok(clvmr::reduction::Reduction(_, out)) => out,
                    Err(_) => panic!("clvm program failed"),
                }
            } else {
                let hint = match how {
                    "nil" => a.nil(),
                    "new_atom" => a.new_atom(&[]).expect("atom"),
                    _ => a.new_substr(big, 7, 7).expect("substr"),
                };
                let memos = a.new_pair(hint, nil).expect("pair");
                let amt = a.new_atom(&[1]).expect("atom");
                let ph2 = a.new_atom(&[4u8; 32]).expect("atom");
                let op = a.new_atom(&[51]).expect("atom");
                let l3 = a.new_pair(memos, nil).expect("pair");
                let l2 = a.new_pair(amt, l3).expect("pair");
                let l1 = a.new_pair(ph2, l2).expect("pair");
                let cond = a.new_pair(op, l1).expect("pair");
                a.new_pair(cond, nil).expect("pair")
            };
            let parent = a.new_atom(&[1u8; 32]).expect("atom");
            let ph = a.new_atom(&[2u8; 32]).expect("atom");
            let amount = a.new_atom(&[100]).expect("atom");
            let s4 = a.new_pair(conds, nil).expect("pair");
            let s3 = a.new_pair(amount, s4).expect("pair");
            let s2 = a.new_pair(ph, s3).expect("pair");
            let spend = a.new_pair(parent, s2).expect("pair");
            let spends = a.new_pair(spend, nil).expect("pair");
            let root = a.new_pair(spends, nil).expect("pair");
            let value = Sx::from_node(&a, root);
            let sig = Signature::default();
            let c = parse_spends::<EmptyVisitor>(&a, root, 11_000_000_000, 0, ConsensusFlags::DONT_VALIDATE_SIGNATURE, &sig, None, &consts.c);
            match c {
                Ok(c) => {
                    let o = OwnedSpendBundleConditions::from(&a, c);
                    let hint = o.spends[0].create_coin.first().map(|(_, _, h)| match h {
                        None => json!({"k": "none"}),
                        Some(b) => json!({"k": "some", "v": jbytes(b.as_ref())}),
                    });
                    // the allocator counters differ between the variants by construction: compare the spends only
                    let enc = o.spends[0].to_bytes().unwrap_or_default();
                    json!({"how": how, "ok": true, "value": value.to_jsonf(), "hint": hint, "spend_sha": jbytes(&sha256(&[&enc]))})
                }
                Err(e) => json!({"how": how, "ok": false, "errname": err_name(&e)}),
            }
        }));
        variants.push(match res {
            Ok(v) => v,
            Err(p) => json!({"how": how, "ok": false, "panic": p}),
        });
    }
    let same_value = variants.iter().all(|v| v["value"] == variants[0]["value"]);
    let same_owned = variants.iter().all(|v| v["spend_sha"] == variants[0]["spend_sha"]);
    json!({"k": "probe", "name": "empty-hint-representation", "same_value": same_value, "same_owned": same_owned, "variants": variants})
}

pub fn record(args: &Args) {
    let seed = args.u64("seed", 1);
    let mut r = rng(seed);
    let mut out = Out::create(args.req("out"));
    let consts = Consts::random(&mut r);
    let nsample = args.u64("sample", 6) as usize;
    if let Some(file) = args.get("replay") {
        for e in read_ndjson(file) {
            if let Some(ev) = replay_event(&e, &mut r, &consts) {
                out.emit(&ev);
            }
        }
    }
    if let Some(cases) = args.get("cases") {
        for c in read_ndjson(cases) {
            if c["k"].as_str() == Some("lat") {
                out.emit(&lat_event(&c, &mut r, nsample));
            }
        }
    }
    for _ in 0..args.u64("n", 0) {
        out.emit(&rnd_event(&mut r, args.u64("chains", 8) as usize));
    }
    let hashes: Vec<Vec<u8>> = (0..5).map(|_| rand_bytes(&mut r, 32)).collect();
    for _ in 0..args.u64("trees", 0) {
        let tree = random_lock_tree(&mut r, &hashes);
        out.emit(&tree_event(&tree, &mut r, args.u64("chains", 8) as usize, &consts));
    }
    // owned projection: TLC menu bundles of the condition machine, then random bundles
    if let Some(cases) = args.get("own-cases") {
        let every = args.u64("own-every", 1).max(1) as usize;
        for (i, c) in read_ndjson(cases).iter().enumerate() {
            if i % every != 0 {
                continue;
            }
            let tree = Sx::from_json(&c["tree"]);
            let mut flags = names_from_json(&c["flags"]);
            if !flags.iter().any(|f| f == "COMPUTE_FINGERPRINT") && i % 2 == 0 {
                flags.push("COMPUTE_FINGERPRINT".to_string());
            }
            let cc = if c.get("consts").is_some() {
                let d = &c["consts"];
                Consts::from_doms([
                    from_jbytes(&d["me"]), from_jbytes(&d["parent"]), from_jbytes(&d["puzzle"]), from_jbytes(&d["amount"]),
                    from_jbytes(&d["puzzle_amount"]), from_jbytes(&d["parent_amount"]), from_jbytes(&d["parent_puzzle"]),
                ])
            } else {
                Consts::from_doms(consts.doms.clone())
            };
            out.emit(&own_event(&tree, &flags, c["vis"].as_str() == Some("mempool") || i % 3 == 0, &cc, "menu",
                if i % 3 == 1 { Some(seed.wrapping_add(i as u64)) } else { None }));
        }
    }
    for i in 0..args.u64("own", 0) {
        let mut flags = random_flags(&mut r);
        if !flags.iter().any(|f| f == "DONT_VALIDATE_SIGNATURE") {
            flags.push("DONT_VALIDATE_SIGNATURE".to_string());
        }
        if r.random_range(0..3) != 0 {
            flags.push("COMPUTE_FINGERPRINT".to_string());
        }
        let tree = {
            // mostly clean bundles (accepted), some with the shape mutations that are legal in consensus mode
            let clean = r.random_range(0..10) < 8;
            let mut g = Gen::new(&mut r, &consts);
            g.clean = clean;
            g.agg_sig_bias = i % 4 == 0;
            g.no_unknown = flags.iter().any(|f| f == "NO_UNKNOWN_CONDS");
            gen_bundle(&mut g, 4, 7)
        };
        let mempool = r.random::<bool>();
        let ps = if r.random::<bool>() { Some(r.random::<u64>()) } else { None };
        out.emit(&own_event(&tree, &flags, mempool, &consts, "random", ps));
    }
    if args.u64("probe", 0) > 0 {
        out.emit(&hint_repr_probe(&consts));
    }
    let n = out.finish();
    println!("{}", json!({"events": n}));
}
