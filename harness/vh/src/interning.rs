//! growth item X04: the interned-generator cost model (spec/Interning.tla, validated by
//! spec/trace/Trace_Interning.tla).
//! Code under test: chia_consensus::generator_cost::interned_vbytes (on clvmr's intern_tree), the base cost
//! charged by run_block_generator2 / run_spendbundle under ConsensusFlags::INTERNED_GENERATOR, and
//! InternedBlockBuilder::{add_spend_bundles, cost, finalize}.
//! Events:
//!   tree  {o, tbl, root, cpb, vb, vbb, vbu, serlen, rbg2 [, items, sb, rbg2sb, bld]}
//!         tbl = node table ({"a":bytes} | {"l":j,"r":k}, 1-based, children first), root = index.
//!         vb  = interned_vbytes of an allocator with exactly the sharing of the table; vbb = after a round trip
//!         through the back-reference serialisation; vbu = of the unshared re-allocation (only when the unfolded
//!         tree is small); serlen = classic serialised length (same condition); rbg2 = run_block_generator2 on
//!         (q . (() . TREE)) under INTERNED_GENERATOR: total cost and its byte part (cost - execution - conditions).
//!         Real bundles (o = "bundle"): tbl is the generator (q . ((spend items))) of the bundle, items = the
//!         roots of the spend items, sb = run_spendbundle, rbg2sb = run_block_generator2 on the back-reference
//!         generator of the bundle, bld = InternedBlockBuilder fed with the bundle (cost() and finalize()).
//!   reset {cpb, max} / add {batch, declared, res, added, done, cost} / fin {res, cost, gen_vb, gen, rbg2}
//!         one history on one InternedBlockBuilder.
//! Every number is kept below 2^31 (TLC integers). A panic or an error of the code is data (-1 / "err").
use crate::sx::*;
use crate::util::*;
use chia_bls::Signature;
use chia_consensus::build_interned_block::{BuildBlockResult, InternedBlockBuilder};
use chia_consensus::consensus_constants::{ConsensusConstants, TEST_CONSTANTS};
use chia_consensus::flags::ConsensusFlags;
use chia_consensus::generator_cost::interned_vbytes;
use chia_consensus::run_block_generator::run_block_generator2;
use chia_consensus::solution_generator::solution_generator_backrefs;
use chia_consensus::spendbundle_conditions::run_spendbundle;
use chia_protocol::{Bytes32, Coin, CoinSpend, Program, SpendBundle};
use chia_traits::Streamable;
use clvmr::allocator::{Allocator, NodePtr, SExp};
use clvmr::serde::{intern_tree, node_from_bytes_backrefs, node_to_bytes, node_to_bytes_backrefs};
use rand::rngs::StdRng;
use rand::Rng;
use serde_json::{json, Value};
use std::collections::HashMap;

const LIMIT: i64 = (1 << 31) - 1;
const UNFOLD_LIMIT: u64 = 1500;
const MIN_COST_THRESHOLD: i64 = 6_000_000;

fn num(v: u64) -> Value {
    assert!(v as i64 <= LIMIT && v <= i64::MAX as u64, "number {v} does not fit a TLC integer");
    json!(v)
}

#[derive(Clone, Debug)]
pub enum TNode {
    A(Vec<u8>),
    P(usize, usize),
}

fn tbl_json(tbl: &[TNode]) -> Value {
    Value::Array(
        tbl.iter()
            .map(|n| match n {
                TNode::A(b) => json!({"a": jbytes(b)}),
                TNode::P(l, r) => json!({"l": l, "r": r}),
            })
            .collect(),
    )
}

fn tbl_from_json(v: &Value) -> Vec<TNode> {
    v.as_array()
        .expect("tbl")
        .iter()
        .map(|n| if let Some(a) = n.get("a") { TNode::A(from_jbytes(a)) } else { TNode::P(n["l"].as_u64().unwrap() as usize, n["r"].as_u64().unwrap() as usize) })
        .collect()
}

/// an allocator with exactly the nodes (and the sharing) of the table
fn alloc_from_table(tbl: &[TNode]) -> (Allocator, Vec<NodePtr>) {
    let mut a = Allocator::new();
    let mut ptr = Vec::with_capacity(tbl.len() + 1);
    ptr.push(NodePtr::NIL); // index 0 unused
    for n in tbl {
        let p = match n {
            TNode::A(b) => a.new_atom(b).expect("new_atom"),
            TNode::P(l, r) => a.new_pair(ptr[*l], ptr[*r]).expect("new_pair"),
        };
        ptr.push(p);
    }
    (a, ptr)
}

/// the nodes reachable from root as a table, keeping the sharing of the allocator (NodePtr identity)
fn table_from_alloc(a: &Allocator, root: NodePtr, tbl: &mut Vec<TNode>, memo: &mut HashMap<NodePtr, usize>) -> usize {
    let mut stack = vec![root];
    while let Some(cur) = stack.pop() {
        if memo.contains_key(&cur) {
            continue;
        }
        match a.sexp(cur) {
            SExp::Atom => {
                tbl.push(TNode::A(a.atom(cur).as_ref().to_vec()));
                memo.insert(cur, tbl.len());
            }
            SExp::Pair(l, r) => match (memo.get(&l), memo.get(&r)) {
                (Some(li), Some(ri)) => {
                    tbl.push(TNode::P(*li, *ri));
                    memo.insert(cur, tbl.len());
                }
                (lm, rm) => {
                    stack.push(cur);
                    if rm.is_none() {
                        stack.push(r);
                    }
                    if lm.is_none() {
                        stack.push(l);
                    }
                }
            },
        }
    }
    memo[&root]
}

/// number of nodes of the unfolded tree, saturating
fn unfolded_size(tbl: &[TNode], root: usize) -> u64 {
    let mut sz = vec![0u64; tbl.len() + 1];
    for (i, n) in tbl.iter().enumerate() {
        sz[i + 1] = match n {
            TNode::A(_) => 1,
            TNode::P(l, r) => (1 + sz[*l] + sz[*r]).min(1 << 40),
        };
    }
    sz[root]
}

fn unfold_sx(tbl: &[TNode], n: usize) -> Sx {
    match &tbl[n - 1] {
        TNode::A(b) => Sx::A(b.clone()),
        TNode::P(l, r) => Sx::cons(unfold_sx(tbl, *l), unfold_sx(tbl, *r)),
    }
}

/// the harness's own estimate of the interned size (used ONLY to choose cost_per_byte and declared costs next
/// to the guards of the builder; never compared with the code - TLC does the judging)
fn own_vbytes(tbl: &[TNode], root: usize) -> u64 {
    let mut reach = vec![false; tbl.len() + 1];
    reach[root] = true;
    for i in (1..=root).rev() {
        if reach[i] {
            if let TNode::P(l, r) = &tbl[i - 1] {
                reach[*l] = true;
                reach[*r] = true;
            }
        }
    }
    let mut atoms: HashMap<&[u8], usize> = HashMap::new();
    let mut pairs: HashMap<(i64, i64), usize> = HashMap::new();
    let mut id = vec![0i64; tbl.len() + 1];
    let mut bytes = 0u64;
    for i in 1..=root {
        if !reach[i] {
            continue;
        }
        match &tbl[i - 1] {
            TNode::A(b) => {
                let k = atoms.len();
                let e = atoms.entry(b.as_slice()).or_insert_with(|| {
                    bytes += b.len() as u64;
                    k + 1
                });
                id[i] = *e as i64;
            }
            TNode::P(l, r) => {
                let k = pairs.len();
                let e = pairs.entry((id[*l], id[*r])).or_insert(k + 1);
                id[i] = -(*e as i64);
            }
        }
    }
    bytes + 2 * atoms.len() as u64 + 3 * pairs.len() as u64
}

fn own_vbytes_sx(s: &Sx) -> u64 {
    let mut a = Allocator::new();
    let n = s.to_node(&mut a);
    let mut tbl = Vec::new();
    let root = table_from_alloc(&a, n, &mut tbl, &mut HashMap::new());
    own_vbytes(&tbl, root)
}

fn consts(cpb: u64, max: u64) -> ConsensusConstants {
    let mut c = TEST_CONSTANTS.clone();
    c.cost_per_byte = cpb;
    c.max_block_cost_clvm = max;
    c
}

/// interned_vbytes of the real code, a panic / error is -1
fn code_vbytes(a: &Allocator, root: NodePtr) -> i64 {
    match catch(std::panic::AssertUnwindSafe(|| intern_tree(a, root).map(|t| interned_vbytes(&t)))) {
        Ok(Ok(v)) if v as i64 <= LIMIT => v as i64,
        _ => -1,
    }
}

fn rbg2_json(program: &[u8], cpb: u64) -> Value {
    let c = consts(cpb, 11_000_000_000);
    let r = catch(std::panic::AssertUnwindSafe(|| {
        run_block_generator2::<&[u8], _>(program, [], 11_000_000_000, ConsensusFlags::INTERNED_GENERATOR | ConsensusFlags::DONT_VALIDATE_SIGNATURE, &Signature::default(), None, &c)
            .map(|(_, conds)| (conds.cost, conds.execution_cost, conds.condition_cost, conds.spends.len()))
    }));
    match r {
        Ok(Ok((cost, exec, cond, n))) => {
            let byte = cost as i128 - exec as i128 - cond as i128;
            if byte < 0 || byte > LIMIT as i128 || cost as i128 > LIMIT as i128 {
                json!({"k": "err", "e": format!("out of range: cost {cost} exec {exec} cond {cond}")})
            } else {
                json!({"k": "ok", "cost": cost, "byte": byte as i64, "exec": exec, "nspends": n})
            }
        }
        Ok(Err(e)) => json!({"k": "err", "e": format!("{e:?}")}),
        Err(p) => json!({"k": "err", "e": format!("panic: {p}")}),
    }
}

fn pick_cpb(r: &mut StdRng, vb_estimate: u64) -> u64 {
    let menu = [12000u64, 1, 7, 1337];
    for _ in 0..8 {
        let c = menu[r.random_range(0..menu.len())];
        if (vb_estimate + 16) * c + 1000 < (1 << 30) {
            return c;
        }
    }
    1
}

fn tree_event(tbl: &[TNode], root: usize, origin: &str, r: &mut StdRng, hint: u64) -> Value {
    let cpb = pick_cpb(r, own_vbytes(tbl, root).max(hint));
    let (mut a, ptr) = alloc_from_table(tbl);
    let rootp = ptr[root];
    let vb = code_vbytes(&a, rootp);
    // round trip through the back-reference serialisation (its own sharing)
    let vbb = match node_to_bytes_backrefs(&a, rootp) {
        Ok(bytes) => {
            let mut b = Allocator::new();
            match node_from_bytes_backrefs(&mut b, &bytes) {
                Ok(n) => code_vbytes(&b, n),
                Err(_) => -1,
            }
        }
        Err(_) => -1,
    };
    let small = unfolded_size(tbl, root) <= UNFOLD_LIMIT;
    let (vbu, serlen) = if small {
        let sx = unfold_sx(tbl, root);
        let mut u = Allocator::new();
        let n = sx.to_node(&mut u);
        (json!([code_vbytes(&u, n)]), json!([node_to_bytes(&u, n).map(|b| b.len() as i64).unwrap_or(-1)]))
    } else {
        (json!([]), json!([]))
    };
    // (q . (() . TREE))
    let inner = a.new_pair(NodePtr::NIL, rootp).expect("pair");
    let one = a.one();
    let prog = a.new_pair(one, inner).expect("pair");
    let rbg2 = match node_to_bytes_backrefs(&a, prog) {
        Ok(bytes) => rbg2_json(&bytes, cpb),
        Err(e) => json!({"k": "err", "e": format!("ser: {e:?}")}),
    };
    json!({"k": "tree", "o": origin, "tbl": tbl_json(tbl), "root": root, "cpb": cpb, "vb": vb, "vbb": vbb, "vbu": vbu, "serlen": serlen, "rbg2": rbg2})
}

// ---------------------------------------------------------------------------
// random tables
// ---------------------------------------------------------------------------
fn atom_pool(r: &mut StdRng) -> Vec<Vec<u8>> {
    let mut pool: Vec<Vec<u8>> = vec![vec![], vec![1], vec![0], vec![128], vec![1, 2, 3], vec![0, 200]];
    for len in [1usize, 2, 4, 8, 32, 32, 48, 63, 64, 65, 100] {
        pool.push(rand_bytes(r, len));
    }
    pool
}

fn random_table(r: &mut StdRng) -> (Vec<TNode>, usize, &'static str) {
    let pool = atom_pool(r);
    let shape = r.random_range(0..6u32);
    let mut tbl: Vec<TNode> = Vec::new();
    let n_atoms = r.random_range(1..6usize);
    let pick = |r: &mut StdRng| pool[if r.random::<bool>() { r.random_range(0..4) } else { r.random_range(0..pool.len()) }].clone();
    match shape {
        0 => {
            // doubling chain: 2^depth leaves unfolded, a handful of unique nodes
            tbl.push(TNode::A(pick(r)));
            let depth = r.random_range(1..48usize);
            for i in 1..=depth {
                tbl.push(TNode::P(i, i));
            }
            let root = tbl.len();
            (tbl, root, "doubling")
        }
        1 | 2 => {
            // heavy sharing: children anywhere among the earlier nodes (duplicates of atoms and of pairs arise)
            for _ in 0..n_atoms {
                tbl.push(TNode::A(pick(r)));
            }
            let n = r.random_range(1..(if shape == 1 { 12 } else { 60usize }));
            for _ in 0..n {
                if r.random_range(0..6u32) == 0 {
                    tbl.push(TNode::A(pick(r)));
                } else {
                    let k = tbl.len();
                    tbl.push(TNode::P(r.random_range(1..=k), r.random_range(1..=k)));
                }
            }
            let root = tbl.len();
            (tbl, root, "dag")
        }
        3 => {
            // a proper tree allocated without any sharing; atoms repeat by value only
            fn grow(r: &mut StdRng, tbl: &mut Vec<TNode>, pool: &[Vec<u8>], depth: u32) -> usize {
                if depth == 0 || r.random_range(0..3u32) == 0 {
                    tbl.push(TNode::A(pool[r.random_range(0..pool.len())].clone()));
                } else {
                    let l = grow(r, tbl, pool, depth - 1);
                    let rr = grow(r, tbl, pool, depth - 1);
                    tbl.push(TNode::P(l, rr));
                }
                tbl.len()
            }
            let root = grow(r, &mut tbl, &pool, 6);
            (tbl, root, "tree")
        }
        4 => {
            // the same subtree allocated twice (equal by value, distinct nodes), then combined; plus garbage
            for _ in 0..n_atoms {
                tbl.push(TNode::A(pick(r)));
            }
            let base = tbl.len();
            let n = r.random_range(1..8usize);
            let mut recipe = Vec::new();
            for i in 0..n {
                let k = base + i;
                recipe.push((r.random_range(1..=k), r.random_range(1..=k)));
            }
            let mut tops = Vec::new();
            for _copy in 0..2 {
                let off = tbl.len() - base;
                for (l, rr) in &recipe {
                    let f = |x: usize| if x > base { x + off } else { x };
                    tbl.push(TNode::P(f(*l), f(*rr)));
                }
                tops.push(tbl.len());
            }
            tbl.push(TNode::P(tops[0], tops[1]));
            let root = tbl.len();
            // unreachable garbage behind the root is not part of the table prefix 1..root, garbage before it is
            (tbl, root, "twins")
        }
        _ => {
            // long proper list of atoms (right spine), some repeated
            let n = r.random_range(1..80usize);
            tbl.push(TNode::A(vec![]));
            let mut tail = 1;
            for _ in 0..n {
                tbl.push(TNode::A(pick(r)));
                let k = tbl.len();
                tbl.push(TNode::P(k, tail));
                tail = tbl.len();
            }
            (tbl, tail, "list")
        }
    }
}

fn big_atom_tables() -> Vec<(Vec<TNode>, usize)> {
    let mut v = Vec::new();
    for len in [63usize, 64, 8191, 8192, 8193] {
        let b: Vec<u8> = (0..len).map(|i| (i % 251) as u8).collect();
        v.push((vec![TNode::A(b.clone())], 1));
        v.push((vec![TNode::A(b), TNode::A(vec![]), TNode::P(1, 2), TNode::P(3, 3)], 4));
    }
    v
}

// ---------------------------------------------------------------------------
// real bundles
// ---------------------------------------------------------------------------
fn bundle_event(path: &std::path::Path, r: &mut StdRng, max_nodes: usize) -> Option<Value> {
    let buf = std::fs::read(path).ok()?;
    let bundle = SpendBundle::from_bytes(&buf).ok()?;
    // the generator (q . ((parent puzzle amount solution) ...)) as build_generator / the builder lay it out
    let mut a = Allocator::new();
    let mut list = NodePtr::NIL;
    let mut item_ptrs = Vec::new();
    for cs in &bundle.coin_spends {
        let sol = node_from_bytes_backrefs(&mut a, cs.solution.as_ref()).ok()?;
        let it = a.new_pair(sol, NodePtr::NIL).ok()?;
        let amt = a.new_atom(&enc_uint(cs.coin.amount as u128)).ok()?;
        let it = a.new_pair(amt, it).ok()?;
        let puz = node_from_bytes_backrefs(&mut a, cs.puzzle_reveal.as_ref()).ok()?;
        let it = a.new_pair(puz, it).ok()?;
        let par = a.new_atom(cs.coin.parent_coin_info.as_ref()).ok()?;
        let it = a.new_pair(par, it).ok()?;
        item_ptrs.push(it);
        list = a.new_pair(it, list).ok()?;
    }
    let inner = a.new_pair(list, NodePtr::NIL).ok()?;
    let one = a.one();
    let root = a.new_pair(one, inner).ok()?;
    let mut tbl = Vec::new();
    let mut memo = HashMap::new();
    let rooti = table_from_alloc(&a, root, &mut tbl, &mut memo);
    if tbl.len() > max_nodes {
        return None;
    }
    let items: Vec<usize> = item_ptrs.iter().map(|p| memo[p]).collect();
    let hint: u64 = items.iter().map(|i| own_vbytes(&tbl, *i) + 3).sum();
    let mut ev = tree_event(&tbl, rooti, "bundle", r, hint);
    let cpb = ev["cpb"].as_u64().unwrap();
    let c = consts(cpb, 11_000_000_000);
    // run_spendbundle: base cost = interned size of the generator it builds itself
    let sb = {
        let res = catch(std::panic::AssertUnwindSafe(|| {
            let mut a2 = Allocator::new();
            run_spendbundle(&mut a2, &bundle, 11_000_000_000, ConsensusFlags::INTERNED_GENERATOR | ConsensusFlags::DONT_VALIDATE_SIGNATURE, &c).map(|(conds, _)| (conds.cost, conds.execution_cost, conds.condition_cost))
        }));
        match res {
            Ok(Ok((cost, exec, cond))) => {
                let byte = cost as i128 - exec as i128 - cond as i128;
                if (0..=LIMIT as i128).contains(&byte) { json!({"k": "ok", "byte": byte as i64}) } else { json!({"k": "err", "e": "range"}) }
            }
            Ok(Err(e)) => json!({"k": "err", "e": format!("{e:?}")}),
            Err(p) => json!({"k": "err", "e": format!("panic: {p}")}),
        }
    };
    let rbg2sb = match solution_generator_backrefs(bundle.coin_spends.iter().map(|cs| (cs.coin, cs.puzzle_reveal.as_slice(), cs.solution.as_slice()))) {
        Ok(bytes) => rbg2_json(&bytes, cpb),
        Err(e) => json!({"k": "err", "e": format!("{e:?}")}),
    };
    let bld = {
        let res = catch(std::panic::AssertUnwindSafe(|| {
            let mut b = InternedBlockBuilder::new(&consts(cpb, LIMIT as u64 - 10));
            let (added, _) = b.add_spend_bundles([&bundle], 0).map_err(|e| format!("{e:?}"))?;
            let cost = b.cost();
            let (_, _, fin) = b.finalize().map_err(|e| format!("{e:?}"))?;
            Ok::<_, String>((added, cost, fin))
        }));
        match res {
            Ok(Ok((added, cost, fin))) if (cost as i64) <= LIMIT => json!({"k": "ok", "added": added, "cost": cost, "fin": fin}),
            Ok(Ok(_)) => json!({"k": "err", "e": "range"}),
            Ok(Err(e)) => json!({"k": "err", "e": e}),
            Err(p) => json!({"k": "err", "e": format!("panic: {p}")}),
        }
    };
    let o = ev.as_object_mut().unwrap();
    o.insert("items".into(), json!(items));
    o.insert("sb".into(), sb);
    o.insert("rbg2sb".into(), rbg2sb);
    o.insert("bld".into(), bld);
    o.insert("file".into(), json!(path.file_name().and_then(|s| s.to_str()).unwrap_or("")));
    Some(ev)
}

// ---------------------------------------------------------------------------
// builder histories
// ---------------------------------------------------------------------------
#[derive(Clone)]
struct Spend {
    parent: Vec<u8>,
    puzzle: Sx,
    amount: u64,
    solution: Sx,
}

impl Spend {
    fn json(&self) -> Value {
        json!({"parent": jbytes(&self.parent), "puzzle": self.puzzle.to_jsonf(), "amount": jbytes(&enc_uint(self.amount as u128)), "solution": self.solution.to_jsonf()})
    }
    fn from_json(v: &Value) -> Spend {
        let amt = from_jbytes(&v["amount"]);
        assert!(amt.len() <= 9 && enc_uint(amt.iter().fold(0u128, |x, b| (x << 8) | *b as u128)) == amt, "amount atom of a case must be a canonical u64");
        Spend { parent: from_jbytes(&v["parent"]), puzzle: Sx::from_json(&v["puzzle"]), amount: amt.iter().fold(0u64, |x, b| (x << 8) | *b as u64), solution: Sx::from_json(&v["solution"]) }
    }
    fn item(&self) -> Sx {
        Sx::list(vec![Sx::A(self.parent.clone()), self.puzzle.clone(), Sx::uint(self.amount as u128), self.solution.clone()])
    }
    fn coin_spend(&self, backrefs: bool) -> CoinSpend {
        let ser = |s: &Sx| {
            let mut a = Allocator::new();
            let n = s.to_node(&mut a);
            if backrefs { node_to_bytes_backrefs(&a, n) } else { node_to_bytes(&a, n) }.expect("serialize")
        };
        CoinSpend::new(
            Coin::new(Bytes32::try_from(self.parent.as_slice()).expect("32-byte parent"), Bytes32::try_from([0u8; 32].as_slice()).unwrap(), self.amount),
            Program::from(ser(&self.puzzle)),
            Program::from(ser(&self.solution)),
        )
    }
}

fn guarded<T>(f: impl FnOnce() -> Result<T, String>) -> Result<T, String> {
    match catch(std::panic::AssertUnwindSafe(f)) {
        Ok(Ok(v)) => Ok(v),
        Ok(Err(e)) => Err(format!("err: {e}")),
        Err(p) => Err(format!("panic: {p}")),
    }
}

/// run one history; `ops` yields (batch, declared) given the builder's current cost()
fn run_history(out: &mut Out, cpb: u64, max: u64, r: &mut StdRng, n_ops: usize, mut next_op: impl FnMut(&mut StdRng, usize, u64) -> Option<(Vec<Vec<Spend>>, u64)>) {
    let c = consts(cpb, max);
    out.emit(&json!({"k": "reset", "cpb": num(cpb), "max": num(max)}));
    let mut b = Some(InternedBlockBuilder::new(&c));
    for i in 0..n_ops {
        let Some(builder) = b.as_mut() else { break };
        let cur = builder.cost();
        let Some((batch, declared)) = next_op(r, i, cur) else { break };
        let backrefs = r.random::<bool>();
        let bundles: Vec<SpendBundle> = batch.iter().map(|sp| SpendBundle::new(sp.iter().map(|s| s.coin_spend(backrefs)).collect(), Signature::default())).collect();
        let res = guarded(|| builder.add_spend_bundles(bundles.iter(), declared).map(|(a, d)| (a, d == BuildBlockResult::Done)).map_err(|e| format!("{e:?}")));
        let jb: Vec<Value> = batch.iter().map(|sp| Value::Array(sp.iter().map(Spend::json).collect())).collect();
        match res {
            Ok((added, done)) => {
                let cost = builder.cost();
                out.emit(&json!({"k": "add", "batch": jb, "declared": num(declared), "res": "ok", "added": added, "done": done, "cost": num(cost)}));
            }
            Err(e) => {
                out.emit(&json!({"k": "add", "batch": jb, "declared": num(declared), "res": e, "added": false, "done": false, "cost": -1}));
                if e.starts_with("panic") {
                    b = None;
                }
            }
        }
    }
    if let Some(mut builder) = b {
        match guarded(|| builder.finalize().map_err(|e| format!("{e:?}"))) {
            Ok((generator, _sig, cost)) => {
                let mut a = Allocator::new();
                let (gen_vb, gen_tree) = match node_from_bytes_backrefs(&mut a, &generator) {
                    Ok(n) => {
                        let sx = Sx::from_node(&a, n);
                        (code_vbytes(&a, n), if generator.len() < 4000 { json!([sx.to_jsonf()]) } else { json!([]) })
                    }
                    Err(_) => (-1, json!([])),
                };
                out.emit(&json!({"k": "fin", "res": "ok", "cost": num(cost), "gen_vb": gen_vb, "gen": gen_tree, "rbg2": rbg2_json(&generator, cpb)}));
            }
            Err(e) => out.emit(&json!({"k": "fin", "res": e, "cost": -1, "gen_vb": -1, "gen": [], "rbg2": {"k": "err", "e": "not run"}})),
        }
    }
}

fn random_sx(r: &mut StdRng, pool: &[Sx], atoms: &[Vec<u8>], depth: u32) -> Sx {
    let k = r.random_range(0..10u32);
    if depth == 0 || k < 3 {
        Sx::A(atoms[r.random_range(0..atoms.len())].clone())
    } else if k < 5 && !pool.is_empty() {
        pool[r.random_range(0..pool.len())].clone()
    } else {
        Sx::cons(random_sx(r, pool, atoms, depth - 1), random_sx(r, pool, atoms, depth - 1))
    }
}

/// (q . ((1 . junk) ...)): a puzzle that runs and yields only REMARK conditions
fn runnable_puzzle(r: &mut StdRng, pool: &[Sx], atoms: &[Vec<u8>]) -> Sx {
    let n = r.random_range(0..4usize);
    let conds: Vec<Sx> = (0..n).map(|_| Sx::cons(Sx::A(vec![1]), random_sx(r, pool, atoms, 3))).collect();
    Sx::cons(Sx::A(vec![1]), Sx::list(conds))
}

fn random_history(out: &mut Out, r: &mut StdRng) {
    let (cpb, max) = [(12000u64, 100_000_000u64), (1, 7_000_000), (7, 20_000_000), (12000, 1_000_000_000), (1337, 50_000_000)][r.random_range(0..5usize)];
    let atoms = atom_pool(r);
    let parents: Vec<Vec<u8>> = (0..3).map(|_| rand_bytes(r, 32)).collect();
    let runnable = r.random_range(0..3u32) == 0;
    let mut pool: Vec<Sx> = Vec::new();
    for _ in 0..4 {
        let s = random_sx(r, &pool, &atoms, 4);
        pool.push(s);
    }
    let amounts = [0u64, 1, 127, 128, 200, 1 << 32, (1 << 63) - 1, 1 << 63, u64::MAX];
    let reject_heavy = r.random_range(0..4u32) == 0;
    let n_ops = if reject_heavy { r.random_range(8..12usize) } else { r.random_range(1..7usize) };
    let mut uniq = 0u64;
    run_history(out, cpb, max, r, n_ops, |r, _i, cur| {
        let nb = r.random_range(1..3usize);
        let mut batch = Vec::new();
        for _ in 0..nb {
            let ns = r.random_range(if nb == 1 { 1 } else { 0 }..3usize);
            let mut sp = Vec::new();
            for _ in 0..ns {
                uniq += 1;
                let parent = if runnable {
                    let mut p = rand_bytes(r, 32);
                    p[0] = uniq as u8;
                    p
                } else {
                    parents[r.random_range(0..parents.len())].clone()
                };
                let puzzle = if runnable { runnable_puzzle(r, &pool, &atoms) } else { random_sx(r, &pool, &atoms, 4) };
                let solution = random_sx(r, &pool, &atoms, 3);
                sp.push(Spend { parent, puzzle, amount: if runnable { uniq } else { amounts[r.random_range(0..amounts.len())] }, solution });
            }
            batch.push(sp);
        }
        let tent: i64 = batch.iter().flatten().map(|s| (own_vbytes_sx(&s.item()) + 3) as i64).sum::<i64>() * cpb as i64;
        let room = max as i64 - cur as i64;
        // reject-heavy histories: mostly rejections that leave room (the skipped counter passes MAX_SKIPPED_ITEMS)
        let kind = if reject_heavy && r.random_range(0..8u32) != 0 { r.random_range(5..8u32) } else { r.random_range(0..10u32) };
        let d = match kind {
            0..=3 => r.random_range(0..5000i64),
            4 => room - tent,
            5 => room - tent + 1,
            6 => room,
            7 => room + 1,
            8 => room - tent - MIN_COST_THRESHOLD,
            _ => room - tent - MIN_COST_THRESHOLD + 1,
        };
        Some((batch, d.clamp(0, LIMIT - max as i64 - 10) as u64))
    });
}

fn replay_history(out: &mut Out, case: &Value, r: &mut StdRng) {
    let cpb = case["cpb"].as_u64().unwrap();
    let max = case["max"].as_u64().unwrap();
    let ops: Vec<(Vec<Vec<Spend>>, u64)> = case["ops"]
        .as_array()
        .unwrap()
        .iter()
        .map(|o| (o["batch"].as_array().unwrap().iter().map(|b| b.as_array().unwrap().iter().map(Spend::from_json).collect()).collect(), o["declared"].as_u64().unwrap()))
        .collect();
    run_history(out, cpb, max, r, ops.len(), |_, i, _| Some(ops[i].clone()));
}

pub fn record(args: &Args) {
    let mut r = rng(args.u64("seed", 1));
    let mut out = Out::create(args.req("out"));
    let (mut n_tree, mut n_hist, mut n_bundle) = (0usize, 0usize, 0usize);
    if let Some(cases) = args.get("cases") {
        for c in read_ndjson(cases) {
            match c["k"].as_str() {
                Some("tree") => {
                    let tbl = tbl_from_json(&c["tbl"]);
                    out.emit(&tree_event(&tbl, c["root"].as_u64().unwrap() as usize, "mc", &mut r, 0));
                    n_tree += 1;
                }
                Some("hist") => {
                    replay_history(&mut out, &c, &mut r);
                    n_hist += 1;
                }
                _ => panic!("unknown case kind"),
            }
        }
    }
    if args.u64("big-atoms", 0) > 0 {
        for (tbl, root) in big_atom_tables() {
            out.emit(&tree_event(&tbl, root, "bigatom", &mut r, 0));
            n_tree += 1;
        }
    }
    for _ in 0..args.u64("random", 0) {
        let (tbl, root, o) = random_table(&mut r);
        out.emit(&tree_event(&tbl, root, o, &mut r, 0));
        n_tree += 1;
    }
    for _ in 0..args.u64("hist", 0) {
        random_history(&mut out, &mut r);
        n_hist += 1;
    }
    let nb = args.u64("bundles", 0) as usize;
    if nb > 0 {
        let dir = args.get("corpus-dir").unwrap_or("/repo/test-bundles");
        let mut files: Vec<_> = std::fs::read_dir(dir).expect("test-bundles").filter_map(|e| e.ok()).map(|e| e.path()).filter(|p| p.extension().map(|s| s == "bundle").unwrap_or(false)).collect();
        files.sort();
        // seeded rotation so that different seeds look at different bundles first
        let k = r.random_range(0..files.len().max(1));
        files.rotate_left(k);
        let max_nodes = args.u64("bundle-nodes", 2500) as usize;
        for f in files {
            if n_bundle >= nb {
                break;
            }
            if let Some(ev) = bundle_event(&f, &mut r, max_nodes) {
                out.emit(&ev);
                n_bundle += 1;
            }
        }
    }
    let n = out.finish();
    println!("{}", json!({"events": n, "trees": n_tree, "histories": n_hist, "bundles": n_bundle}));
}
