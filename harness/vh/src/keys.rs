//! C16: key / signature encodings and the key-derivation algebra.
//!
//! Part A ("script" events): an operation script (from TLC or seeded random) is executed on
//! real keys twice, with two independent seed sets; the byte encodings of every store entry
//! are logged. Part B ("enc" / "skr" / "gt" events): strings realising one row of the flag-bit
//! table are pushed through every parser; the facts about the coordinate come from raw blst
//! calls (oracle), never from chia-bls.
use crate::util::*;
use blst::*;
use chia_bls::{
    master_to_pool_authentication, master_to_pool_singleton, master_to_wallet_hardened,
    master_to_wallet_hardened_intermediate, master_to_wallet_unhardened,
    master_to_wallet_unhardened_intermediate, sign, DerivableKey, GTElement, PublicKey, SecretKey,
    Signature,
};
use chia_puzzle_types::standard::DEFAULT_HIDDEN_PUZZLE_HASH;
use chia_puzzle_types::DeriveSynthetic;
use chia_traits::Streamable;
use num_bigint::BigUint;
use rand::rngs::StdRng;
use rand::Rng;
use serde_json::{json, Map, Value};
use std::collections::HashMap;
use std::mem::MaybeUninit;
use std::panic::AssertUnwindSafe;

// ------------------------------------------------------------------ part A: scripts

#[derive(Clone, Debug)]
struct Op {
    op: String,
    a: usize,
    b: usize,
    x: String,
    n: Vec<u8>,
    n2: Vec<u8>,
}

impl Op {
    fn new(op: &str, a: usize, b: usize, x: &str, n: &[u8], n2: &[u8]) -> Op {
        Op { op: op.to_string(), a, b, x: x.to_string(), n: n.to_vec(), n2: n2.to_vec() }
    }
    fn to_json(&self) -> Value {
        json!({"op": self.op, "a": self.a, "b": self.b, "x": self.x, "n": jbytes(&self.n), "n2": jbytes(&self.n2)})
    }
}

fn bignat_u32(b: &[u8]) -> u32 {
    let mut r: u64 = 0;
    for x in b {
        r = (r << 8) | *x as u64;
    }
    u32::try_from(r).expect("index fits u32")
}

fn nat_of(v: u32) -> Vec<u8> {
    let b = v.to_be_bytes();
    let s = b.iter().position(|x| *x != 0).unwrap_or(4);
    b[s..].to_vec()
}

/// flatten a nested term (TLC case) into store operations; identical subterms share one entry
fn flatten(t: &Value, memo: &mut HashMap<String, usize>, ops: &mut Vec<Op>) -> usize {
    let name = t["op"].as_str().unwrap_or("nil");
    if name == "nil" {
        return 0;
    }
    let key = serde_json::to_string(t).expect("json");
    if let Some(i) = memo.get(&key) {
        return *i;
    }
    let a = flatten(&t["a"], memo, ops);
    let b = flatten(&t["b"], memo, ops);
    ops.push(Op {
        op: name.to_string(),
        a,
        b,
        x: t["x"].as_str().unwrap_or("").to_string(),
        n: from_jbytes(&t["n"]),
        n2: from_jbytes(&t["n2"]),
    });
    memo.insert(key, ops.len());
    ops.len()
}

#[derive(Clone)]
enum Val {
    Sk(SecretKey),
    Pk(PublicKey),
    Sig(Signature),
}

impl Val {
    fn bytes(&self) -> Vec<u8> {
        match self {
            Val::Sk(k) => k.to_bytes().to_vec(),
            Val::Pk(k) => k.to_bytes().to_vec(),
            Val::Sig(k) => k.to_bytes().to_vec(),
        }
    }
}

struct Ctx {
    seeds: HashMap<String, Vec<u8>>,
    hid: HashMap<String, [u8; 32]>,
    msg: HashMap<String, Vec<u8>>,
}

fn sk_of(store: &[Option<Val>], i: usize) -> Result<SecretKey, String> {
    match store.get(i.wrapping_sub(1)) {
        Some(Some(Val::Sk(k))) => Ok(k.clone()),
        _ => Err("operand is not a secret key".into()),
    }
}
fn pk_of(store: &[Option<Val>], i: usize) -> Result<PublicKey, String> {
    match store.get(i.wrapping_sub(1)) {
        Some(Some(Val::Pk(k))) => Ok(*k),
        _ => Err("operand is not a public key".into()),
    }
}

fn syn<K: DeriveSynthetic>(k: &K, x: &str, ctx: &Ctx) -> K {
    match x {
        "D" => k.derive_synthetic(),
        "DX" => k.derive_synthetic_hidden(&DEFAULT_HIDDEN_PUZZLE_HASH),
        h => k.derive_synthetic_hidden(&ctx.hid[h]),
    }
}

/// returns (value, alternative computations of the same value as bytes)
fn exec(o: &Op, store: &[Option<Val>], ctx: &Ctx) -> Result<(Val, Vec<Vec<u8>>), String> {
    let idx = || bignat_u32(&o.n);
    let none = Vec::new();
    Ok(match o.op.as_str() {
        "seed" => (Val::Sk(SecretKey::from_seed(&ctx.seeds[&o.x])), none),
        "dsk" => (Val::Sk(sk_of(store, o.a)?.derive_unhardened(idx())), none),
        "dpk" => (Val::Pk(pk_of(store, o.a)?.derive_unhardened(idx())), none),
        "hard" => (Val::Sk(sk_of(store, o.a)?.derive_hardened(idx())), none),
        "pub" => (Val::Pk(sk_of(store, o.a)?.public_key()), none),
        "addsk" => {
            let (a, b) = (sk_of(store, o.a)?, sk_of(store, o.b)?);
            let r = &a + &b;
            let by_val = a.clone() + &b;
            let mut asg = a.clone();
            asg += &b;
            (Val::Sk(r), vec![by_val.to_bytes().to_vec(), asg.to_bytes().to_vec()])
        }
        "addpk" => {
            let (a, b) = (pk_of(store, o.a)?, pk_of(store, o.b)?);
            let r = &a + &b;
            let by_val = a + &b;
            let mut asg = a;
            asg += &b;
            (Val::Pk(r), vec![by_val.to_bytes().to_vec(), asg.to_bytes().to_vec()])
        }
        "synsk" => (Val::Sk(syn(&sk_of(store, o.a)?, &o.x, ctx)), none),
        "synpk" => (Val::Pk(syn(&pk_of(store, o.a)?, &o.x, ctx)), none),
        "sign" => {
            let k = sk_of(store, o.a)?;
            let m = &ctx.msg[&o.x];
            let s1 = sign(&k, m);
            let s2 = sign(&k.clone(), m.clone());
            (Val::Sig(s1), vec![s2.to_bytes().to_vec()])
        }
        "ser" => match store.get(o.a.wrapping_sub(1)) {
            Some(Some(Val::Sk(k))) => {
                let b = k.to_bytes();
                let r = SecretKey::from_bytes(&b).map_err(|e| format!("{e}"))?;
                let st = <SecretKey as Streamable>::from_bytes(&b).map_err(|e| format!("{e}"))?;
                let mut streamed = Vec::new();
                k.stream(&mut streamed).map_err(|e| format!("{e}"))?;
                (Val::Sk(r), vec![st.to_bytes().to_vec(), streamed])
            }
            Some(Some(Val::Pk(k))) => {
                let b = k.to_bytes();
                let r = PublicKey::from_bytes(&b).map_err(|e| format!("{e}"))?;
                let u = PublicKey::from_bytes_unchecked(&b).map_err(|e| format!("{e}"))?;
                let st = <PublicKey as Streamable>::from_bytes(&b).map_err(|e| format!("{e}"))?;
                let stu = <PublicKey as Streamable>::from_bytes_unchecked(&b).map_err(|e| format!("{e}"))?;
                let mut streamed = Vec::new();
                k.stream(&mut streamed).map_err(|e| format!("{e}"))?;
                (Val::Pk(r), vec![u.to_bytes().to_vec(), st.to_bytes().to_vec(), stu.to_bytes().to_vec(), streamed])
            }
            Some(Some(Val::Sig(k))) => {
                let b = k.to_bytes();
                let r = Signature::from_bytes(&b).map_err(|e| format!("{e}"))?;
                let u = Signature::from_bytes_unchecked(&b).map_err(|e| format!("{e}"))?;
                let st = <Signature as Streamable>::from_bytes(&b).map_err(|e| format!("{e}"))?;
                let stu = <Signature as Streamable>::from_bytes_unchecked(&b).map_err(|e| format!("{e}"))?;
                let mut streamed = Vec::new();
                k.stream(&mut streamed).map_err(|e| format!("{e}"))?;
                (Val::Sig(r), vec![u.to_bytes().to_vec(), st.to_bytes().to_vec(), stu.to_bytes().to_vec(), streamed])
            }
            _ => return Err("operand missing".into()),
        },
        "wu_sk" => (Val::Sk(master_to_wallet_unhardened(&sk_of(store, o.a)?, idx())), none),
        "wu_pk" => (Val::Pk(master_to_wallet_unhardened(&pk_of(store, o.a)?, idx())), none),
        "wui_sk" => (Val::Sk(master_to_wallet_unhardened_intermediate(&sk_of(store, o.a)?)), none),
        "wui_pk" => (Val::Pk(master_to_wallet_unhardened_intermediate(&pk_of(store, o.a)?)), none),
        "wh" => (Val::Sk(master_to_wallet_hardened(&sk_of(store, o.a)?, idx())), none),
        "whi" => (Val::Sk(master_to_wallet_hardened_intermediate(&sk_of(store, o.a)?)), none),
        "ps" => (Val::Sk(master_to_pool_singleton(&sk_of(store, o.a)?, idx())), none),
        "pa" => (Val::Sk(master_to_pool_authentication(&sk_of(store, o.a)?, idx(), bignat_u32(&o.n2))), none),
        other => return Err(format!("unknown op {other}")),
    })
}

fn run_script(ops: &[Op], ctx: &Ctx) -> Value {
    let mut store: Vec<Option<Val>> = Vec::new();
    let mut ent = Vec::new();
    for o in ops {
        let r = catch(AssertUnwindSafe(|| exec(o, &store, ctx)));
        match r {
            Ok(Ok((v, alt))) => {
                let pubb = match &v {
                    Val::Sk(k) => catch(AssertUnwindSafe(|| k.public_key().to_bytes().to_vec())).unwrap_or_default(),
                    _ => vec![],
                };
                ent.push(json!({"ok": true, "v": jbytes(&v.bytes()), "pub": jbytes(&pubb),
                                "alt": alt.iter().map(|a| jbytes(a)).collect::<Vec<_>>(), "err": ""}));
                store.push(Some(v));
            }
            Ok(Err(e)) => {
                ent.push(json!({"ok": false, "v": [], "pub": [], "alt": [], "err": e}));
                store.push(None);
            }
            Err(p) => {
                ent.push(json!({"ok": false, "v": [], "pub": [], "alt": [], "err": format!("panic: {p}")}));
                store.push(None);
            }
        }
    }
    let mut seeds = Map::new();
    for (k, v) in &ctx.seeds {
        seeds.insert(k.clone(), jbytes(v));
    }
    json!({"seeds": Value::Object(seeds), "ent": ent})
}

fn script_event(ops: &[Op], mc: Vec<usize>, src: &str, r: &mut StdRng) -> Value {
    let mut hid = HashMap::new();
    let mut msg = HashMap::new();
    for h in ["H1", "H2"] {
        let mut b = [0u8; 32];
        r.fill(&mut b);
        hid.insert(h.to_string(), b);
    }
    // distinct message tokens are distinct byte strings (m1 may be empty, m2 never is)
    let n = r.random_range(0..40usize);
    msg.insert("m1".to_string(), rand_bytes(r, n));
    let mut m2 = vec![0x6du8, 0x32];
    let n = r.random_range(0..40usize);
    m2.extend(rand_bytes(r, n));
    if m2 == msg["m1"] {
        m2.push(0);
    }
    msg.insert("m2".to_string(), m2);
    // two independent seed sets: a difference predicted by the algebra must show in at least one
    let mut seed_sets = Vec::new();
    for _ in 0..2 {
        let mut seeds = HashMap::new();
        for s in ["s1", "s2", "s3"] {
            let n = if r.random_range(0..4u32) == 0 { r.random_range(32..64usize) } else { 32 };
            seeds.insert(s.to_string(), rand_bytes(r, n));
        }
        seed_sets.push(seeds);
    }
    script_event_with(ops, mc, src, hid, msg, seed_sets)
}

fn script_event_with(
    ops: &[Op],
    mc: Vec<usize>,
    src: &str,
    hid: HashMap<String, [u8; 32]>,
    msg: HashMap<String, Vec<u8>>,
    seed_sets: Vec<HashMap<String, Vec<u8>>>,
) -> Value {
    let mut runs = Vec::new();
    for seeds in seed_sets {
        let ctx = Ctx { seeds, hid: hid.clone(), msg: msg.clone() };
        runs.push(run_script(ops, &ctx));
    }
    json!({
        "k": "script", "src": src,
        "ops": ops.iter().map(Op::to_json).collect::<Vec<_>>(),
        "mc": mc,
        "hid": {"H1": jbytes(&hid["H1"]), "H2": jbytes(&hid["H2"])},
        "msg": {"m1": jbytes(&msg["m1"]), "m2": jbytes(&msg["m2"])},
        "runs": runs,
    })
}

/// re-execute a recorded event with exactly its logged inputs
fn replay_event(e: &Value) -> Option<Value> {
    match e["k"].as_str().unwrap_or("") {
        "script" => {
            let ops: Vec<Op> = e["ops"].as_array()?.iter().map(|o| Op {
                op: o["op"].as_str().unwrap_or("").to_string(),
                a: o["a"].as_u64().unwrap_or(0) as usize,
                b: o["b"].as_u64().unwrap_or(0) as usize,
                x: o["x"].as_str().unwrap_or("").to_string(),
                n: from_jbytes(&o["n"]),
                n2: from_jbytes(&o["n2"]),
            }).collect();
            let mc = e["mc"].as_array().map(|a| a.iter().map(|x| x.as_u64().unwrap_or(0) as usize).collect()).unwrap_or_default();
            let mut hid = HashMap::new();
            for h in ["H1", "H2"] {
                let b: [u8; 32] = from_jbytes(&e["hid"][h]).try_into().ok()?;
                hid.insert(h.to_string(), b);
            }
            let mut msg = HashMap::new();
            for m in ["m1", "m2"] {
                msg.insert(m.to_string(), from_jbytes(&e["msg"][m]));
            }
            let mut sets = Vec::new();
            for run in e["runs"].as_array()? {
                let mut seeds = HashMap::new();
                for (k, v) in run["seeds"].as_object()? {
                    seeds.insert(k.clone(), from_jbytes(v));
                }
                sets.push(seeds);
            }
            Some(script_event_with(&ops, mc, "replay", hid, msg, sets))
        }
        "enc" => Some(enc_event(e["kind"].as_str()?, &from_jbytes(&e["b"]), &e["row"], "replay")),
        "skr" => Some(skr_event(&from_jbytes(&e["b"]).try_into().ok()?, "replay")),
        "gt" => Some(gt_event(&from_jbytes(&e["b"]).try_into().ok()?, "replay")),
        _ => None,
    }
}

fn case_terms(c: &Value, r: &mut StdRng) -> Value {
    let terms = c["terms"].as_array().cloned().unwrap_or_default();
    let cls: Vec<usize> = c["cls"].as_array().map(|a| a.iter().map(|x| x.as_u64().unwrap_or(0) as usize).collect()).unwrap_or_default();
    let mut memo = HashMap::new();
    let mut ops = Vec::new();
    let at: Vec<usize> = terms.iter().map(|t| flatten(t, &mut memo, &mut ops)).collect();
    // class predicted by TLC for store entry k = store index of the class representative
    let mut mc = vec![0usize; ops.len()];
    for (k, store_idx) in at.iter().enumerate() {
        if let Some(rep) = cls.get(k) {
            mc[*store_idx - 1] = at[*rep - 1];
        }
    }
    if mc.contains(&0) {
        mc.clear(); // store is not subterm closed: no prediction carried over
    }
    script_event(&ops, mc, c["mode"].as_str().unwrap_or("mc"), r)
}

const IDX_MENU: [u32; 10] = [0, 1, 2, 5, 6, 8444, 12381, 0x7fff_ffff, 0x8000_0000, 0xffff_ffff];

fn rand_idx(r: &mut StdRng) -> Vec<u8> {
    if r.random_range(0..4u32) == 0 {
        nat_of(r.random::<u32>())
    } else {
        nat_of(IDX_MENU[r.random_range(0..IDX_MENU.len())])
    }
}

/// seeded random script: mirrored sk / pk routes (commuting diagrams) mixed with free operations
fn random_script(r: &mut StdRng) -> Vec<Op> {
    let mut ops: Vec<Op> = Vec::new();
    let mut sks: Vec<usize> = Vec::new();
    let mut pks: Vec<usize> = Vec::new();
    let mut sigs: Vec<usize> = Vec::new();
    let mut pairs: Vec<(usize, usize)> = Vec::new(); // (sk entry, pk entry) with the same exponent
    let nseeds = r.random_range(1..=3usize);
    for s in ["s1", "s2", "s3"].iter().take(nseeds) {
        ops.push(Op::new("seed", 0, 0, s, &[], &[]));
        let i = ops.len();
        sks.push(i);
        ops.push(Op::new("pub", i, 0, "", &[], &[]));
        pks.push(ops.len());
        pairs.push((i, ops.len()));
    }
    let hids = ["D", "DX", "H1", "H2"];
    let steps = r.random_range(2..=7usize);
    for _ in 0..steps {
        let pick = r.random_range(0..100u32);
        if pick < 55 {
            // the same operation along both routes
            let (s, p) = pairs[r.random_range(0..pairs.len())];
            match r.random_range(0..5u32) {
                0 | 1 => {
                    let n = rand_idx(r);
                    ops.push(Op::new("dsk", s, 0, "", &n, &[]));
                    let si = ops.len();
                    ops.push(Op::new("dpk", p, 0, "", &n, &[]));
                    pairs.push((si, ops.len()));
                }
                2 => {
                    let h = hids[r.random_range(0..hids.len())];
                    let h2 = if h == "D" && r.random::<bool>() { "DX" } else { h };
                    ops.push(Op::new("synsk", s, 0, h, &[], &[]));
                    let si = ops.len();
                    ops.push(Op::new("synpk", p, 0, h2, &[], &[]));
                    pairs.push((si, ops.len()));
                }
                3 => {
                    let (s2, p2) = pairs[r.random_range(0..pairs.len())];
                    ops.push(Op::new("addsk", s, s2, "", &[], &[]));
                    let si = ops.len();
                    let (pa, pb) = if r.random::<bool>() { (p, p2) } else { (p2, p) };
                    ops.push(Op::new("addpk", pa, pb, "", &[], &[]));
                    pairs.push((si, ops.len()));
                }
                _ => {
                    let n = rand_idx(r);
                    if r.random::<bool>() {
                        ops.push(Op::new("wu_sk", s, 0, "", &n, &[]));
                        let si = ops.len();
                        ops.push(Op::new("wu_pk", p, 0, "", &n, &[]));
                        pairs.push((si, ops.len()));
                    } else {
                        ops.push(Op::new("wui_sk", s, 0, "", &[], &[]));
                        let si = ops.len();
                        ops.push(Op::new("wui_pk", p, 0, "", &[], &[]));
                        pairs.push((si, ops.len()));
                    }
                }
            }
            let (si, pi) = *pairs.last().unwrap();
            sks.push(si);
            pks.push(pi);
        } else {
            let s = sks[r.random_range(0..sks.len())];
            let p = pks[r.random_range(0..pks.len())];
            match r.random_range(0..12u32) {
                0 => { ops.push(Op::new("dsk", s, 0, "", &rand_idx(r), &[])); sks.push(ops.len()); }
                1 => { ops.push(Op::new("dpk", p, 0, "", &rand_idx(r), &[])); pks.push(ops.len()); }
                2 => { ops.push(Op::new("hard", s, 0, "", &rand_idx(r), &[])); sks.push(ops.len()); }
                3 => { ops.push(Op::new("pub", s, 0, "", &[], &[])); pks.push(ops.len()); pairs.push((s, ops.len())); }
                4 => { let s2 = sks[r.random_range(0..sks.len())]; ops.push(Op::new("addsk", s, s2, "", &[], &[])); sks.push(ops.len()); }
                5 => { let p2 = pks[r.random_range(0..pks.len())]; ops.push(Op::new("addpk", p, p2, "", &[], &[])); pks.push(ops.len()); }
                6 => { ops.push(Op::new("sign", s, 0, if r.random::<bool>() { "m1" } else { "m2" }, &[], &[])); sigs.push(ops.len()); }
                7 => {
                    let pool: Vec<usize> = sks.iter().chain(pks.iter()).chain(sigs.iter()).copied().collect();
                    let t = pool[r.random_range(0..pool.len())];
                    ops.push(Op::new("ser", t, 0, "", &[], &[]));
                    let i = ops.len();
                    if sks.contains(&t) { sks.push(i) } else if pks.contains(&t) { pks.push(i) } else { sigs.push(i) }
                }
                8 => { ops.push(Op::new("wh", s, 0, "", &rand_idx(r), &[])); sks.push(ops.len()); }
                9 => { ops.push(Op::new(if r.random::<bool>() { "whi" } else { "wui_sk" }, s, 0, "", &[], &[])); sks.push(ops.len()); }
                10 => { ops.push(Op::new("ps", s, 0, "", &rand_idx(r), &[])); sks.push(ops.len()); }
                _ => {
                    let pw = nat_of(r.random_range(0..10000u32));
                    let i = nat_of(r.random_range(0..10000u32));
                    ops.push(Op::new("pa", s, 0, "", &pw, &i));
                    sks.push(ops.len());
                }
            }
        }
    }
    ops
}

// ------------------------------------------------------------------ part B: encodings

const P_HEX: &str = "1a0111ea397fe69a4b1ba7b6434bacd764774b84f38512bf6730d2a0f6b0f6241eabfffeb153ffffb9feffffffffaaab";
const R_HEX: &str = "73eda753299d7d483339d80809a1d80553bda402fffe5bfeffffffff00000001";

fn p_mod() -> BigUint {
    BigUint::parse_bytes(P_HEX.as_bytes(), 16).unwrap()
}

fn is_qr(a: &BigUint, p: &BigUint) -> bool {
    // a = 0 or a^((p-1)/2) = 1
    let z = BigUint::from(0u32);
    if *a == z {
        return true;
    }
    a.modpow(&((p - 1u32) >> 1), p) == BigUint::from(1u32)
}

/// independent (num-bigint) answer to "is x the abscissa of a curve point"; None when x >= p
fn on_curve_bn(kind: &str, b: &[u8]) -> Option<bool> {
    let p = p_mod();
    let mut m = b.to_vec();
    m[0] &= 0x1f;
    if kind == "g1" {
        let x = BigUint::from_bytes_be(&m);
        if x >= p {
            return None;
        }
        let rhs = (x.modpow(&BigUint::from(3u32), &p) + 4u32) % &p;
        Some(is_qr(&rhs, &p))
    } else {
        let c1 = BigUint::from_bytes_be(&m[..48]);
        let c0 = BigUint::from_bytes_be(&m[48..]);
        if c1 >= p || c0 >= p {
            return None;
        }
        // x = c0 + c1 u, u^2 = -1; rhs = x^3 + 4(1 + u); square in Fp2 iff its norm is a square in Fp
        let sq0 = (&c0 * &c0 + &p * &p - &c1 * &c1) % &p;
        let sq1 = (BigUint::from(2u32) * &c0 * &c1) % &p;
        let cu0 = (&sq0 * &c0 + &p * &p - &sq1 * &c1) % &p;
        let cu1 = (&sq0 * &c1 + &sq1 * &c0) % &p;
        let r0 = (cu0 + 4u32) % &p;
        let r1 = (cu1 + 4u32) % &p;
        let norm = (&r0 * &r0 + &r1 * &r1) % &p;
        Some(is_qr(&norm, &p))
    }
}

/// the coordinate part with every 48-byte field element reduced modulo p; .1 = all were below p already
fn reduced(b: &[u8]) -> (Vec<u8>, bool) {
    let p = p_mod();
    let mut m = b.to_vec();
    m[0] &= 0x1f;
    let mut below = true;
    for k in 0..(m.len() / 48) {
        let v = BigUint::from_bytes_be(&m[48 * k..48 * (k + 1)]);
        if v >= p {
            below = false;
            m[48 * k..48 * (k + 1)].copy_from_slice(&fe_bytes(&(v % &p)));
        }
    }
    (m, below)
}

/// oracle facts about the coordinate x mod p of a string (flags ignored), from raw blst: (on curve, in subgroup).
/// Whether the coordinate is written canonically (x < p) is decided by the specification, not here.
fn oracle(kind: &str, b: &[u8]) -> (bool, bool) {
    let (b, _) = reduced(b);
    let b = b.as_slice();
    let mut probe = b.to_vec();
    probe[0] = (probe[0] & 0x1f) | 0x80;
    let (ret, oc, ing) = unsafe {
        if kind == "g1" {
            let mut aff = MaybeUninit::<blst_p1_affine>::zeroed();
            let ret = blst_p1_uncompress(aff.as_mut_ptr(), probe.as_ptr());
            let aff = aff.assume_init();
            let filled = ret == BLST_ERROR::BLST_SUCCESS || ret == BLST_ERROR::BLST_POINT_NOT_IN_GROUP;
            (ret, filled && blst_p1_affine_on_curve(&aff), ret == BLST_ERROR::BLST_SUCCESS && blst_p1_affine_in_g1(&aff))
        } else {
            let mut aff = MaybeUninit::<blst_p2_affine>::zeroed();
            let ret = blst_p2_uncompress(aff.as_mut_ptr(), probe.as_ptr());
            let aff = aff.assume_init();
            let filled = ret == BLST_ERROR::BLST_SUCCESS || ret == BLST_ERROR::BLST_POINT_NOT_IN_GROUP;
            (ret, filled && blst_p2_affine_on_curve(&aff), ret == BLST_ERROR::BLST_SUCCESS && blst_p2_affine_in_g2(&aff))
        }
    };
    // self-check of the oracle against plain modular arithmetic (not a statement about chia-bls)
    match on_curve_bn(kind, b) {
        None => assert!(ret == BLST_ERROR::BLST_BAD_ENCODING && !oc, "oracle: x >= p but blst says {ret:?}"),
        Some(v) => assert!(v == oc, "oracle disagreement on curve membership: blst {oc} bigint {v} ({ret:?})"),
    }
    (oc, ing)
}

fn res_json<T>(r: Result<Result<T, String>, String>, ser: impl Fn(&T) -> Vec<u8>) -> Value {
    match r {
        Ok(Ok(v)) => match catch(AssertUnwindSafe(|| ser(&v))) {
            Ok(b) => json!({"ok": true, "out": jbytes(&b), "err": ""}),
            Err(p) => json!({"ok": false, "out": [], "err": format!("panic in to_bytes: {p}")}),
        },
        Ok(Err(e)) => json!({"ok": false, "out": [], "err": e}),
        Err(p) => json!({"ok": false, "out": [], "err": format!("panic: {p}")}),
    }
}

fn enc_event(kind: &str, b: &[u8], row: &Value, src: &str) -> Value {
    let (oc, ing) = oracle(kind, b);
    let (chk, unc, st, stt) = if kind == "g1" {
        let a: [u8; 48] = b.try_into().expect("48 bytes");
        (
            res_json(catch(AssertUnwindSafe(|| PublicKey::from_bytes(&a).map_err(|e| format!("{e}")))), |k| k.to_bytes().to_vec()),
            res_json(catch(AssertUnwindSafe(|| PublicKey::from_bytes_unchecked(&a).map_err(|e| format!("{e}")))), |k| k.to_bytes().to_vec()),
            res_json(catch(AssertUnwindSafe(|| <PublicKey as Streamable>::from_bytes(&a).map_err(|e| format!("{e}")))), |k| k.to_bytes().to_vec()),
            res_json(catch(AssertUnwindSafe(|| <PublicKey as Streamable>::from_bytes_unchecked(&a).map_err(|e| format!("{e}")))), |k| k.to_bytes().to_vec()),
        )
    } else {
        let a: [u8; 96] = b.try_into().expect("96 bytes");
        (
            res_json(catch(AssertUnwindSafe(|| Signature::from_bytes(&a).map_err(|e| format!("{e}")))), |k| k.to_bytes().to_vec()),
            res_json(catch(AssertUnwindSafe(|| Signature::from_bytes_unchecked(&a).map_err(|e| format!("{e}")))), |k| k.to_bytes().to_vec()),
            res_json(catch(AssertUnwindSafe(|| <Signature as Streamable>::from_bytes(&a).map_err(|e| format!("{e}")))), |k| k.to_bytes().to_vec()),
            res_json(catch(AssertUnwindSafe(|| <Signature as Streamable>::from_bytes_unchecked(&a).map_err(|e| format!("{e}")))), |k| k.to_bytes().to_vec()),
        )
    };
    json!({"k": "enc", "src": src, "kind": kind, "b": jbytes(b), "oncurve": oc, "insub": ing, "row": row,
           "chk": chk, "unc": unc, "st": st, "stt": stt})
}

fn skr_event(b: &[u8; 32], src: &str) -> Value {
    let r = res_json(catch(AssertUnwindSafe(|| SecretKey::from_bytes(b).map_err(|e| format!("{e}")))), |k| k.to_bytes().to_vec());
    let st = res_json(catch(AssertUnwindSafe(|| <SecretKey as Streamable>::from_bytes(b).map_err(|e| format!("{e}")))), |k| k.to_bytes().to_vec());
    json!({"k": "skr", "src": src, "b": jbytes(b), "chk": r, "st": st})
}

const GT_SIZE: usize = 576;

fn gt_event(b: &[u8; GT_SIZE], src: &str) -> Value {
    let r = catch(AssertUnwindSafe(|| {
        let g = GTElement::from_bytes(b);
        let out = g.to_bytes();
        let again = GTElement::from_bytes(&out);
        let mut streamed = Vec::new();
        g.stream(&mut streamed).expect("stream");
        let parsed = <GTElement as Streamable>::from_bytes(b).map(|p| p.to_bytes().to_vec());
        (out.to_vec(), g == again, streamed, parsed)
    }));
    match r {
        Ok((out, eq, streamed, parsed)) => json!({"k": "gt", "src": src, "b": jbytes(b), "ok": true, "out": jbytes(&out), "eq": eq,
            "streamed": jbytes(&streamed), "parsed": match parsed { Ok(p) => json!([jbytes(&p)]), Err(_) => json!([]) }}),
        Err(p) => json!({"k": "gt", "src": src, "b": jbytes(b), "ok": false, "out": [], "eq": false, "streamed": [], "parsed": [], "err": p}),
    }
}

/// two pairing elements computed along different routes: equal elements <=> equal encodings
fn gt2_event(r: &mut StdRng) -> Value {
    let a = SecretKey::from_seed(&rand_bytes(r, 32));
    let same = r.random::<bool>();
    let scalar = a.to_bytes();
    // e(a * G1, G2)  versus  e(G1, a * G2)  (or an unrelated element)
    let x = Signature::generator().pair(&a.public_key());
    let mut s = Signature::generator();
    if same {
        s.scalar_multiply(&scalar);
    } else {
        s.scalar_multiply(&SecretKey::from_seed(&rand_bytes(r, 32)).to_bytes());
    }
    let y = s.pair(&PublicKey::generator());
    json!({"k": "gt2", "x": jbytes(&x.to_bytes()), "y": jbytes(&y.to_bytes()), "eq": x == y, "same": same})
}

struct Pools {
    // coordinate strings (flags cleared) per class
    g1: HashMap<&'static str, Vec<Vec<u8>>>,
    g2: HashMap<&'static str, Vec<Vec<u8>>>,
}

fn classify(kind: &str, b: &[u8]) -> &'static str {
    let mut m = b.to_vec();
    m[0] &= 0x1f;
    if m.iter().all(|x| *x == 0) {
        return "zero";
    }
    if !reduced(b).1 {
        return "gep";
    }
    let (oc, ing) = oracle(kind, b);
    if !oc {
        "offcurve"
    } else if ing {
        "insub"
    } else {
        "offsub"
    }
}

fn add_be(b: &mut [u8], v: i32) {
    // b += v (|v| small) as a big-endian integer, wrapping
    let mut carry = v as i64;
    for x in b.iter_mut().rev() {
        let s = *x as i64 + carry;
        *x = s.rem_euclid(256) as u8;
        carry = s.div_euclid(256);
        if carry == 0 {
            break;
        }
    }
}

fn fe_bytes(v: &BigUint) -> Vec<u8> {
    let b = v.to_bytes_be();
    let mut out = vec![0u8; 48 - b.len()];
    out.extend_from_slice(&b);
    out
}

fn build_pools(r: &mut StdRng, per_class: usize) -> Pools {
    let p = p_mod();
    let mut pools = Pools { g1: HashMap::new(), g2: HashMap::new() };
    for kind in ["g1", "g2"] {
        let len = if kind == "g1" { 48 } else { 96 };
        let mut m: HashMap<&'static str, Vec<Vec<u8>>> = HashMap::new();
        let put = |m: &mut HashMap<&'static str, Vec<Vec<u8>>>, b: Vec<u8>, cap: usize| {
            let mut c = b.clone();
            c[0] &= 0x1f;
            let cl = classify(kind, &c);
            let v = m.entry(cl).or_default();
            if v.len() < cap && !v.contains(&c) {
                v.push(c);
            }
        };
        put(&mut m, vec![0u8; len], 1);
        // valid points of the subgroup: keys / signatures, generators
        let mut valid = Vec::new();
        if kind == "g1" {
            valid.push(PublicKey::generator().to_bytes().to_vec());
        } else {
            valid.push(Signature::generator().to_bytes().to_vec());
        }
        for _ in 0..per_class {
            let sk = SecretKey::from_seed(&rand_bytes(r, 32));
            valid.push(if kind == "g1" { sk.public_key().to_bytes().to_vec() } else { sign(&sk, rand_bytes(r, 9)).to_bytes().to_vec() });
        }
        for v in &valid {
            put(&mut m, v.clone(), per_class);
            // coordinate +-1 (each component for g2)
            for d in [1, -1] {
                let mut w = v.clone();
                w[0] &= 0x1f;
                add_be(&mut w[..48], d);
                w[0] &= 0x1f;
                put(&mut m, w, 4 * per_class);
                if kind == "g2" {
                    let mut w = v.clone();
                    w[0] &= 0x1f;
                    add_be(&mut w[48..], d);
                    put(&mut m, w, 4 * per_class);
                }
            }
            // the same residue class written non-canonically: x + p (when it still fits 381 bits)
            let mut w = v.clone();
            w[0] &= 0x1f;
            let comp = if kind == "g1" { 0..48 } else { 48..96 };
            let alias = BigUint::from_bytes_be(&w[comp.clone()]) + &p;
            if alias.bits() <= 381 {
                w[comp].copy_from_slice(&fe_bytes(&alias));
                put(&mut m, w.clone(), 4 * per_class);
            }
            if kind == "g2" {
                let mut w = v.clone();
                w[0] &= 0x1f;
                let alias = BigUint::from_bytes_be(&w[..48]) + &p;
                if alias.bits() <= 381 {
                    w[..48].copy_from_slice(&fe_bytes(&alias));
                    put(&mut m, w, 4 * per_class);
                }
            }
        }
        // x >= p: p, p + 1, 2^381 - 1
        for comp in 0..(len / 48) {
            for v in [p.clone(), &p + 1u32, (BigUint::from(1u32) << 381) - 1u32] {
                let mut w = valid[0].clone();
                w[0] &= 0x1f;
                w[48 * comp..48 * (comp + 1)].copy_from_slice(&fe_bytes(&v));
                put(&mut m, w, 8 * per_class);
            }
        }
        // more aliases x + p of subgroup points (x + p fits 381 bits for about a quarter of all x)
        let mut found = 0;
        for n in 0..400u32 {
            if found >= 2 * per_class.max(1) {
                break;
            }
            let sk = SecretKey::from_seed(&rand_bytes(r, 32));
            let mut w = if kind == "g1" { sk.public_key().to_bytes().to_vec() } else { sign(&sk, n.to_be_bytes()).to_bytes().to_vec() };
            w[0] &= 0x1f;
            let comp = if kind == "g1" || n % 2 == 0 { 0..48 } else { 48..96 };
            let alias = BigUint::from_bytes_be(&w[comp.clone()]) + &p;
            if alias.bits() <= 381 {
                w[comp].copy_from_slice(&fe_bytes(&alias));
                put(&mut m, w, 64 * per_class);
                found += 1;
            }
        }
        // random coordinates below p: on the curve (then almost surely outside the subgroup) or not
        let mut tries = 0;
        while (m.get("offsub").map_or(0, Vec::len) < per_class || m.get("offcurve").map_or(0, Vec::len) < per_class) && tries < 4000 {
            tries += 1;
            let mut w = rand_bytes(r, len);
            w[0] &= 0x1f;
            if kind == "g2" && r.random_range(0..8u32) == 0 {
                // x in the base field (c1 = 0) or purely imaginary
                let z = if r.random::<bool>() { 0..48 } else { 48..96 };
                for i in z {
                    w[i] = 0;
                }
            }
            put(&mut m, w, 4 * per_class);
        }
        if kind == "g1" {
            pools.g1 = m;
        } else {
            pools.g2 = m;
        }
    }
    pools
}

fn with_flags(coord: &[u8], c: u64, i: u64, s: u64) -> Vec<u8> {
    let mut b = coord.to_vec();
    b[0] = (b[0] & 0x1f) | ((c as u8) << 7) | ((i as u8) << 6) | ((s as u8) << 5);
    b
}

fn r_ord() -> BigUint {
    BigUint::parse_bytes(R_HEX.as_bytes(), 16).unwrap()
}

fn to32(v: &BigUint) -> [u8; 32] {
    let b = v.to_bytes_be();
    let mut out = [0u8; 32];
    out[32 - b.len()..].copy_from_slice(&b);
    out
}

pub fn record(args: &Args) {
    let seed = args.u64("seed", 1);
    let mut r = rng(seed);
    let mut out = Out::create(args.req("out"));
    let per_class = args.u64("per-class", 3) as usize;
    let mut pools: Option<Pools> = None;
    if let Some(cases) = args.get("cases") {
        for c in read_ndjson(cases) {
            match c["k"].as_str().unwrap_or("") {
                "terms" => out.emit(&case_terms(&c, &mut r)),
                "enc" => {
                    let pl = pools.get_or_insert_with(|| build_pools(&mut rng(seed ^ 0x5eed), per_class));
                    let row = &c["row"];
                    let kind = row["kind"].as_str().unwrap_or("g1");
                    let xc = row["xc"].as_str().unwrap_or("zero");
                    let m = if kind == "g1" { &pl.g1 } else { &pl.g2 };
                    let empty = Vec::new();
                    let coords = m.get(xc).unwrap_or(&empty);
                    // a spread of the pool of this class (pools are filled from several sources in turn)
                    let want = (per_class.max(1) * 2).min(coords.len());
                    for co in (0..want).map(|j| &coords[j * coords.len() / want]) {
                        let b = with_flags(co, row["c"].as_u64().unwrap_or(0), row["i"].as_u64().unwrap_or(0), row["s"].as_u64().unwrap_or(0));
                        out.emit(&enc_event(kind, &b, row, "mc"));
                    }
                }
                "skr" => {
                    let b: [u8; 32] = from_jbytes(&c["v"]).try_into().expect("32 bytes");
                    out.emit(&skr_event(&b, "mc"));
                }
                _ => {}
            }
        }
    }
    // recorded events of an earlier run (bin/check --replay)
    if let Some(f) = args.get("replay") {
        for e in read_ndjson(f) {
            if let Some(v) = replay_event(&e) {
                out.emit(&v);
            }
        }
    }
    // seeded random scripts
    for _ in 0..args.u64("scripts", 0) {
        let ops = random_script(&mut r);
        out.emit(&script_event(&ops, vec![], "rand", &mut r));
    }
    // encodings outside the table rows: the 0x80|k 00..00 family (all bytes after the first are zero), single-bit
    // flips and single-byte changes of valid encodings, random strings, random flags on random coordinates
    let nenc = args.u64("enc", 0);
    if nenc > 0 {
        let none = json!({"kind": "", "c": 0, "i": 0, "s": 0, "xc": ""});
        for kind in ["g1", "g2"] {
            let len = if kind == "g1" { 48 } else { 96 };
            for k in 0..=255u32 {
                let mut b = vec![0u8; len];
                b[0] = k as u8;
                out.emit(&enc_event(kind, &b, &none, "tailzero"));
            }
        }
        for n in 0..nenc {
            let kind = if n % 2 == 0 { "g1" } else { "g2" };
            let len = if kind == "g1" { 48 } else { 96 };
            let sk = SecretKey::from_seed(&rand_bytes(&mut r, 32));
            let mut b = if kind == "g1" { sk.public_key().to_bytes().to_vec() } else { sign(&sk, [n as u8]).to_bytes().to_vec() };
            match r.random_range(0..6u32) {
                0 => {}
                1 => { let bit = r.random_range(0..len * 8); b[bit / 8] ^= 0x80 >> (bit % 8); }
                2 => { let bit = r.random_range(0..8usize); b[0] ^= 0x80 >> bit; }
                3 => { let i = r.random_range(0..len); b[i] = r.random(); }
                4 => { b = rand_bytes(&mut r, len); }
                _ => { b = rand_bytes(&mut r, len); b[0] &= 0xbf; if r.random_range(0..4u32) > 0 { b[0] |= 0x80; } }
            }
            out.emit(&enc_event(kind, &b, &none, "rand"));
        }
        // infinity: canonical and with stray bits anywhere
        for kind in ["g1", "g2"] {
            let len = if kind == "g1" { 48 } else { 96 };
            let mut inf = vec![0u8; len];
            inf[0] = 0xc0;
            out.emit(&enc_event(kind, &inf, &none, "inf"));
            // one stray bit in every byte position
            for j in 0..len {
                let mut b = inf.clone();
                b[j] ^= 0x80 >> r.random_range(0..8u32);
                out.emit(&enc_event(kind, &b, &none, "inf"));
            }
            for _ in 0..(nenc / 8).max(8) {
                let mut b = inf.clone();
                let bit = r.random_range(0..len * 8);
                b[bit / 8] ^= 0x80 >> (bit % 8);
                out.emit(&enc_event(kind, &b, &none, "inf"));
            }
        }
        // secret key range: random 32-byte strings and random offsets around the group order
        let ro = r_ord();
        for n in 0..nenc {
            let b: [u8; 32] = match n % 4 {
                0 => rand_bytes(&mut r, 32).try_into().unwrap(),
                1 => to32(&(&ro - r.random_range(0..70000u32))),
                2 => to32(&(&ro + r.random_range(0..70000u32))),
                _ => { let mut b: [u8; 32] = rand_bytes(&mut r, 32).try_into().unwrap(); b[0] = 0x73; b[1] = 0xed; b }
            };
            out.emit(&skr_event(&b, "rand"));
        }
    }
    // pairing elements
    for n in 0..args.u64("gt", 0) {
        let b: [u8; GT_SIZE] = if n % 2 == 0 {
            let sk = SecretKey::from_seed(&rand_bytes(&mut r, 32));
            sign(&sk, b"gt").pair(&sk.public_key()).to_bytes()
        } else {
            rand_bytes(&mut r, GT_SIZE).try_into().unwrap()
        };
        out.emit(&gt_event(&b, if n % 2 == 0 { "pairing" } else { "rand" }));
        out.emit(&gt2_event(&mut r));
    }
    let n = out.finish();
    eprintln!("keys: {n} events");
}
