//! C07/C08/C09 (+C02/C04 entry points): block generators and spend bundles.
//! "gen" events: one generator through run_block_generator (legacy) and run_block_generator2
//! (native) plus the trusted helpers; "sb" events: one spend bundle through run_spendbundle and
//! through generators built from it. CLVM execution results are ORACLE inputs: the harness runs
//! clvmr itself on the generator and on every (puzzle, solution) and logs result and cost.
use crate::conditions::*;
use crate::sx::*;
use crate::util::*;
use chia_bls::Signature;
use chia_consensus::additions_and_removals::additions_and_removals;
use chia_consensus::build_compressed_block::BlockBuilder;
use chia_consensus::build_interned_block::InternedBlockBuilder;
use chia_consensus::flags::{ConsensusFlags, MEMPOOL_MODE};
use chia_consensus::get_puzzle_and_solution::get_puzzle_and_solution_for_coin;
use chia_consensus::owned_conditions::OwnedSpendBundleConditions;
use chia_consensus::run_block_generator::{
    get_coinspends_for_trusted_block, get_coinspends_with_conditions_for_trusted_block, run_block_generator, run_block_generator2,
};
use chia_consensus::solution_generator::{calculate_generator_length, solution_generator, solution_generator_backrefs};
use chia_consensus::spendbundle_conditions::run_spendbundle;
use chia_protocol::{Bytes32, Coin, CoinSpend, Program, SpendBundle};
use clvmr::allocator::Allocator;
use clvmr::chia_dialect::ChiaDialect;
use clvmr::reduction::Reduction;
use clvmr::run_program::run_program;
use clvmr::serde::{node_from_bytes_backrefs, node_to_bytes, node_to_bytes_backrefs};
use rand::rngs::StdRng;
use rand::Rng;
use serde_json::{json, Value};

pub const BLOCK_MAX: u64 = 11_000_000_000;

pub fn gen_flags(names: &[String]) -> ConsensusFlags {
    let mut f = flags_from_names(names);
    if names.iter().any(|n| n == "CLVM_MEMPOOL_MODE") {
        f |= MEMPOOL_MODE - ConsensusFlags::NO_UNKNOWN_CONDS - ConsensusFlags::STRICT_ARGS_COUNT - ConsensusFlags::LIMIT_SPENDS;
    }
    f
}

pub fn tree_hash_sx(s: &Sx) -> Vec<u8> {
    // independent tree hash (sha2 crate), iterative over the right spine
    match s {
        Sx::A(b) => sha256(&[&[1u8], b]),
        Sx::P(l, r) => {
            let lh = tree_hash_sx(l);
            let rh = tree_hash_sx(r);
            sha256(&[&[2u8], &lh, &rh])
        }
    }
}

pub fn sx_size(s: &Sx) -> usize {
    let mut n = 0;
    let mut stack = vec![s];
    while let Some(x) = stack.pop() {
        n += 1;
        if let Sx::P(l, r) = x {
            stack.push(l);
            stack.push(r);
        }
    }
    n
}

/// true when the tree under n has more than `limit` nodes or more than 64 * limit atom bytes
pub fn node_size_exceeds(a: &Allocator, n: clvmr::NodePtr, limit: usize) -> bool {
    let mut count = 0usize;
    let mut bytes = 0usize;
    let mut stack = vec![n];
    while let Some(x) = stack.pop() {
        count += 1;
        match a.sexp(x) {
            clvmr::SExp::Atom => bytes += a.atom_len(x),
            clvmr::SExp::Pair(l, r) => {
                stack.push(l);
                stack.push(r);
            }
        }
        if count > limit || bytes > 64 * limit {
            return true;
        }
    }
    false
}

pub fn ser_plain(s: &Sx) -> Vec<u8> {
    let mut a = Allocator::new();
    let n = s.to_node(&mut a);
    node_to_bytes(&a, n).expect("serialize")
}
pub fn ser_backrefs(s: &Sx) -> Vec<u8> {
    let mut a = Allocator::new();
    let n = s.to_node(&mut a);
    node_to_bytes_backrefs(&a, n).expect("serialize")
}

/// oracle: run a program with clvmr directly
pub fn clvm_oracle(prog: &Sx, env: &Sx, flags: ConsensusFlags, tree_limit: usize) -> Value {
    let r = catch(std::panic::AssertUnwindSafe(|| {
        let mut a = Allocator::new();
        let p = prog.to_node(&mut a);
        let e = env.to_node(&mut a);
        let dialect = ChiaDialect::new(flags.to_clvm_flags());
        match run_program(&mut a, &dialect, p, e, BLOCK_MAX) {
            Ok(Reduction(cost, res)) => {
                if node_size_exceeds(&a, res, tree_limit) {
                    json!({"ok": true, "cost": bignat_u64(cost), "big": true})
                } else {
                    let out = Sx::from_node(&a, res);
                    json!({"ok": true, "cost": bignat_u64(cost), "big": false, "res": out.to_jsonf()})
                }
            }
            Err(e) => json!({"ok": false, "err": format!("{e:?}")}),
        }
    }));
    r.unwrap_or_else(|p| json!({"ok": false, "err": format!("PANIC {p}")}))
}

fn list_items(s: &Sx) -> (Vec<&Sx>, &Sx) {
    let mut v = Vec::new();
    let mut cur = s;
    while let Sx::P(l, r) = cur {
        v.push(&**l);
        cur = r;
    }
    (v, cur)
}

fn res_json(r: Result<(Allocator, chia_consensus::conditions::SpendBundleConditions), chia_consensus::validation_error::ValidationErr>) -> Value {
    match r {
        Ok((a, c)) => {
            let o = OwnedSpendBundleConditions::from(&a, c);
            json!({"ok": true, "r": summary_json(&o)})
        }
        Err(e) => {
            // is this a cost / interpreter-resource exhaustion (the only legacy-only failure C07 permits)?
            let n = err_name(&e);
            let resource = ["CostExceeded", "OutOfMemory", "TooManyPairs", "TooManyAtoms", "ValueStackLimitReached", "EnvironmentStackLimitReached"].iter().any(|k| n.contains(k));
            json!({"ok": false, "err": err_code(&e), "errname": n, "resource": resource})
        }
    }
}

fn guard(f: impl FnOnce() -> Value) -> Value {
    match catch(std::panic::AssertUnwindSafe(f)) {
        Ok(v) => v,
        Err(p) => json!({"ok": false, "err": -1, "errname": format!("PANIC: {p}")}),
    }
}

fn coin_json(c: &Coin) -> Value {
    json!({"parent": jbytes(c.parent_coin_info.as_ref()), "ph": jbytes(c.puzzle_hash.as_ref()), "amt": bignat_u64(c.amount)})
}

/// trusted helpers on a generator (C09)
fn trusted_json(prog: &[u8], refs: &[Vec<u8>], flags: ConsensusFlags, consts: &Consts, lookups: &[Coin], tree_limit: usize) -> Value {
    let aar = guard(|| match additions_and_removals(prog, refs.iter(), flags, &consts.c) {
        Ok((adds, rems)) => json!({"ok": true,
            "adds": Value::Array(adds.iter().map(|(c, h)| json!({"coin": coin_json(c),
                "hint": match h { None => json!({"k": "none"}), Some(b) => json!({"k": "some", "v": jbytes(b.as_ref())}) }})).collect()),
            "rems": Value::Array(rems.iter().map(|(id, c)| json!({"id": jbytes(id.as_ref()), "coin": coin_json(c)})).collect())}),
        Err(e) => json!({"ok": false, "errname": err_name(&e)}),
    });
    let program = Program::from(prog.to_vec());
    let cs_json = |cs: &CoinSpend| {
        json!({"coin": coin_json(&cs.coin), "puzzle": jbytes(cs.puzzle_reveal.as_ref()), "solution": jbytes(cs.solution.as_ref())})
    };
    let cs = guard(|| match get_coinspends_for_trusted_block(&consts.c, &program, refs.iter(), flags) {
        Ok(v) => {
            // rebuild a generator from the recovered coin spends and validate it again
            let rebuilt = solution_generator(v.iter().map(|c| (c.coin, c.puzzle_reveal.as_ref().to_vec(), c.solution.as_ref().to_vec())));
            let re = match rebuilt {
                Ok(g) => res_json(run_block_generator2(&g, Vec::<Vec<u8>>::new(), BLOCK_MAX, flags - ConsensusFlags::SIMPLE_GENERATOR | ConsensusFlags::DONT_VALIDATE_SIGNATURE, &Signature::default(), None, &consts.c)),
                Err(e) => json!({"ok": false, "errname": format!("{e:?}")}),
            };
            let small: usize = v.iter().map(|c| c.puzzle_reveal.as_ref().len() + c.solution.as_ref().len()).sum();
            json!({"ok": true, "n": v.len(), "list": if small < tree_limit * 4 { Value::Array(v.iter().map(cs_json).collect()) } else { json!([]) },
                   "listed": small < tree_limit * 4, "rebuilt": re})
        }
        Err(e) => json!({"ok": false, "errname": err_name(&e)}),
    });
    let csc = guard(|| match get_coinspends_with_conditions_for_trusted_block(&consts.c, &program, refs.iter(), flags) {
        Ok(v) => {
            // the raw condition listing (judged against ListingOfConds of Generator.tla) when it is small enough to log
            let nconds: usize = v.iter().map(|(_, conds)| conds.len()).sum();
            let nbytes: usize = v.iter().map(|(_, conds)| conds.iter().map(|(_, a)| a.iter().map(|x| x.len()).sum::<usize>()).sum::<usize>()).sum();
            let listed = nconds <= 6000 && nbytes <= 400_000;
            let listing = if listed {
                Value::Array(v.iter().map(|(_, conds)| Value::Array(conds.iter().map(|(op, a)| json!({"op": op, "args": Value::Array(a.iter().map(|x| jbytes(x)).collect())})).collect())).collect())
            } else {
                json!([])
            };
            json!({"ok": true, "n": v.len(),
                "coins": Value::Array(v.iter().map(|(c, _)| coin_json(&c.coin)).collect()),
                "nconds": Value::Array(v.iter().map(|(_, conds)| json!(conds.len())).collect()),
                "listed": listed, "listing": listing})
        }
        Err(e) => json!({"ok": false, "errname": err_name(&e)}),
    });
    // get_puzzle_and_solution_for_coin needs the generator output; run the generator like the node does
    let look = guard(|| {
        let mut a = Allocator::new();
        let p = match node_from_bytes_backrefs(&mut a, prog) { Ok(p) => p, Err(_) => return json!({"ok": false}) };
        let args = match chia_consensus::run_block_generator::setup_generator_args(&mut a, refs.iter(), flags) { Ok(x) => x, Err(_) => return json!({"ok": false}) };
        let dialect = ChiaDialect::new(flags.to_clvm_flags());
        let Ok(Reduction(_, out)) = run_program(&mut a, &dialect, p, args, BLOCK_MAX) else { return json!({"ok": false}) };
        let mut v = Vec::new();
        for c in lookups {
            match get_puzzle_and_solution_for_coin(&a, out, c) {
                Ok((pz, sol)) => {
                    let ps = Sx::from_node(&a, pz);
                    let ss = Sx::from_node(&a, sol);
                    v.push(json!({"coin": coin_json(c), "found": true, "ph": jbytes(&tree_hash_sx(&ps)),
                        "puzzle": if sx_size(&ps) < tree_limit { ps.to_jsonf() } else { json!({"a": []}) },
                        "solution": if sx_size(&ss) < tree_limit { ss.to_jsonf() } else { json!({"a": []}) },
                        "small": sx_size(&ps) < tree_limit && sx_size(&ss) < tree_limit}));
                }
                Err(_) => v.push(json!({"coin": coin_json(c), "found": false})),
            }
        }
        json!({"ok": true, "results": v})
    });
    json!({"aar": aar, "cs": cs, "csc": csc, "look": look})
}

pub struct GenInput {
    /// Some(k): the program is a reference-selecting generator (Generator.tla RefSelProg) picking reference k
    pub refsel: Option<usize>,
    pub prog: Vec<u8>,
    pub prog_tree: Option<Sx>,
    pub ser: String,
    pub refs: Vec<Vec<u8>>,
    pub flags: Vec<String>,
    pub max: u64,
    pub src: String,
}

const TREE_LIMIT: usize = 4000;
/// per-event override of TREE_LIMIT (the listing-cap family needs puzzle outputs of > 1024 conditions logged)
static TREE_LIMIT_CUR: std::sync::atomic::AtomicUsize = std::sync::atomic::AtomicUsize::new(TREE_LIMIT);
fn tree_limit() -> usize {
    TREE_LIMIT_CUR.load(std::sync::atomic::Ordering::Relaxed)
}

pub fn gen_event(inp: &GenInput, consts: &Consts, with_trusted: bool) -> Value {
    let flags = gen_flags(&inp.flags);
    let sig = Signature::default();
    let native = guard(|| res_json(run_block_generator2(&inp.prog, inp.refs.iter(), inp.max, flags, &sig, None, &consts.c)));
    let legacy = guard(|| res_json(run_block_generator(&inp.prog, inp.refs.iter(), inp.max, flags, &sig, None, &consts.c)));
    // oracle: the generator run and every puzzle run, by clvmr directly
    let mut ev = json!({"k": "gen", "src": inp.src, "prog_len": inp.prog.len(), "ser": inp.ser, "nrefs": inp.refs.len(), "flags": inp.flags,
        "max": bignat_u64(inp.max), "cpb": bignat_u64(consts.c.cost_per_byte), "native": native, "legacy": legacy, "consts": consts.to_json(),
        "prefix": jbytes(&inp.prog[..inp.prog.len().min(2)])});
    ev["refs"] = Value::Array(inp.refs.iter().map(|r| jbytes(r)).collect());
    if let Some(k) = inp.refsel {
        ev["refsel"] = json!(k);
    }
    let tree = match &inp.prog_tree {
        Some(t) => Some(t.clone()),
        None => {
            let mut a = Allocator::new();
            match node_from_bytes_backrefs(&mut a, &inp.prog) {
                Ok(n) if !node_size_exceeds(&a, n, 200_000) => Some(Sx::from_node(&a, n)),
                _ => None,
            }
        }
    };
    let Some(tree) = tree else {
        // undecodable or enormous program: only the pair of verdicts is judged
        ev["opaque"] = json!(true);
        ev["undecodable"] = json!(true);
        return ev;
    };
    let small_prog = sx_size(&tree) <= tree_limit();
    if small_prog {
        ev["prog"] = tree.to_jsonf();
    }
    // generator arguments (built independently of setup_generator_args)
    let simple = flags.contains(ConsensusFlags::SIMPLE_GENERATOR);
    let args = if simple {
        Sx::nil()
    } else {
        let mut a = Allocator::new();
        let d = clvmr::serde::node_from_bytes(&mut a, &chia_puzzles::CHIALISP_DESERIALISATION).expect("deserialiser");
        let dm = Sx::from_node(&a, d);
        Sx::list(vec![dm, Sx::list(inp.refs.iter().map(|r| Sx::A(r.clone())).collect())])
    };
    let genrun = clvm_oracle(&tree, &args, flags, tree_limit());
    let mut opaque = !small_prog && false;
    let mut runs = Vec::new();
    let mut vk = Vec::new();
    let mut lookups: Vec<Coin> = Vec::new();
    if genrun["ok"].as_bool() == Some(true) {
        if genrun["big"].as_bool() == Some(true) {
            opaque = true;
        } else {
            let out = Sx::from_json(&genrun["res"]);
            if let Sx::P(spends, _) = &out {
                let (items, _) = list_items(spends);
                for sp in items {
                    let (f, _) = list_items(sp);
                    if f.len() >= 4 {
                        let run = clvm_oracle(f[1], f[3], flags, tree_limit());
                        if run["ok"].as_bool() == Some(true) && run["big"].as_bool() == Some(false) {
                            collect_48(&Sx::from_json(&run["res"]), &mut vk);
                        }
                        if run["big"].as_bool() == Some(true) {
                            opaque = true;
                        }
                        let ph = tree_hash_sx(f[1]);
                        if let (Sx::A(p), Sx::A(amt)) = (f[0], f[2]) {
                            if p.len() == 32 && amt.len() <= 8 && (amt.is_empty() || amt[0] & 0x80 == 0) {
                                let mut v: u64 = 0;
                                for b in amt {
                                    v = (v << 8) | *b as u64;
                                }
                                lookups.push(Coin::new(Bytes32::try_from(p.as_slice()).unwrap(), Bytes32::try_from(ph.as_slice()).unwrap(), v));
                            }
                        }
                        let mut r2 = run;
                        r2["ph"] = jbytes(&ph);
                        runs.push(r2);
                    } else {
                        runs.push(json!({"k": "na"}));
                    }
                }
            }
        }
    }
    ev["genrun"] = genrun;
    ev["runs"] = Value::Array(runs);
    ev["opaque"] = json!(opaque);
    ev["vk"] = Value::Array(vk.iter().filter(|k| key_valid(k)).map(|k| jbytes(k)).collect());
    if with_trusted && ev["native"]["ok"].as_bool() == Some(true) {
        lookups.truncate(6);
        lookups.push(Coin::new(Bytes32::try_from([9u8; 32].as_slice()).unwrap(), Bytes32::try_from([8u8; 32].as_slice()).unwrap(), 12345));
        ev["trusted"] = trusted_json(&inp.prog, &inp.refs, flags, consts, &lookups, tree_limit());
    }
    ev
}

// ---------------------------------------------------------------------------
// generators from bundles of the condition generator
// ---------------------------------------------------------------------------

/// puzzle that returns its solution and whose tree hash depends on `salt`: (r (c (q . salt) 1))
pub fn salted_identity(salt: &[u8]) -> Sx {
    let q = Sx::cons(Sx::A(vec![1]), Sx::A(salt.to_vec()));
    let c = Sx::list(vec![Sx::A(vec![4]), q, Sx::A(vec![1])]);
    Sx::list(vec![Sx::A(vec![6]), c])
}

pub struct PuzzlePool {
    pub puzzles: Vec<Sx>,
    pub hashes: Vec<Vec<u8>>,
}

impl PuzzlePool {
    pub fn new(r: &mut StdRng, n: usize) -> PuzzlePool {
        let mut puzzles = Vec::new();
        for i in 0..n {
            let n = r.random_range(1..6usize);
            let salt = if i == 0 { vec![] } else { rand_bytes(r, n) };
            puzzles.push(salted_identity(&salt));
        }
        puzzles.push(Sx::A(vec![1])); // the plain identity puzzle
        let hashes = puzzles.iter().map(tree_hash_sx).collect();
        PuzzlePool { puzzles, hashes }
    }
}

/// turn the output-form bundle ((parent ph amount conds . x) ...) into generator-form spends
/// (parent puzzle amount solution . x): the puzzle reveals hash to ph and return conds
pub fn to_generator_output(tree: &Sx, pool: &PuzzlePool, r: &mut StdRng) -> Sx {
    let Sx::P(spends, rest) = tree else { return tree.clone() };
    let mut items = Vec::new();
    let mut cur: &Sx = spends;
    while let Sx::P(l, rr) = cur {
        items.push((**l).clone());
        cur = rr;
    }
    let term = cur.clone();
    let mut out = Vec::new();
    for sp in items {
        let mut fields = Vec::new();
        let mut c = &sp;
        while let Sx::P(l, rr) = c {
            fields.push((**l).clone());
            c = rr;
        }
        let ftail = c.clone();
        if fields.len() >= 4 {
            let idx = match &fields[1] {
                Sx::A(b) => pool.hashes.iter().position(|h| h == b),
                _ => None,
            };
            match idx {
                Some(i) => fields[1] = pool.puzzles[i].clone(),
                None => {
                    // unknown puzzle hash: quote the conditions (the hash will be whatever it is)
                    fields[1] = Sx::cons(Sx::A(vec![1]), fields[3].clone());
                    fields[3] = if r.random::<bool>() { Sx::nil() } else { Sx::A(vec![7, 7]) };
                }
            }
        }
        out.push(Sx::list_tail(fields, ftail));
    }
    Sx::cons(Sx::list_tail(out, term), (**rest).clone())
}

pub fn random_gen_flags(r: &mut StdRng) -> Vec<String> {
    let mut v = vec!["DONT_VALIDATE_SIGNATURE".to_string()];
    for n in ["NO_UNKNOWN_CONDS", "STRICT_ARGS_COUNT", "COST_CONDITIONS", "LIMIT_SPENDS", "SIMPLE_GENERATOR", "INTERNED_GENERATOR"] {
        if r.random_range(0..4) == 0 {
            v.push(n.to_string());
        }
    }
    if r.random_range(0..5) == 0 {
        v.push("CLVM_MEMPOOL_MODE".to_string());
    }
    v
}

fn random_output(r: &mut StdRng, consts: &Consts, pool: &PuzzlePool, flags: &[String]) -> Sx {
    let clean = r.random_range(0..10) < 7;
    let bundle = {
        let mut g = Gen::new(r, consts);
        g.clean = clean;
        g.no_unknown = flags.iter().any(|f| f == "NO_UNKNOWN_CONDS");
        g.ph_pool = Some(pool.hashes.clone());
        gen_bundle(&mut g, 4, 5)
    };
    to_generator_output(&bundle, pool, r)
}

pub fn record(args: &Args) {
    let seed = args.u64("seed", 1);
    let mut r = rng(seed);
    let mut out = Out::create(args.req("out"));
    let consts = Consts::random(&mut r);
    let trusted = args.u64("trusted", 1) == 1;
    // cases from MC_GenShape: {out: tree, nrefs, flags, max}
    if let Some(cases) = args.get("cases") {
        for c in read_ndjson(cases) {
            // reference-selecting generators come as a whole program, everything else as an output to be quoted
            let refsel = c.get("refsel").and_then(|k| k.as_u64()).map(|k| k as usize);
            let prog_tree = if c.get("prog").is_some() { Sx::from_json(&c["prog"]) } else { Sx::cons(Sx::A(vec![1]), Sx::from_json(&c["out"])) };
            let flags = names_from_json(&c["flags"]);
            let nrefs = c["nrefs"].as_u64().unwrap_or(0) as usize;
            // distinct references (32 bytes, so that a selected one is a well-formed parent id)
            let refs: Vec<Vec<u8>> = (0..nrefs).map(|_| rand_bytes(&mut r, 32)).collect();
            let max = if c.get("max").is_some() { bignat_to_u128(&c["max"]) as u64 } else { BLOCK_MAX };
            for ser in ["plain", "backrefs"] {
                let prog = if ser == "plain" { ser_plain(&prog_tree) } else { ser_backrefs(&prog_tree) };
                if ser == "backrefs" && prog == ser_plain(&prog_tree) {
                    continue;
                }
                let inp = GenInput { refsel, prog, prog_tree: Some(prog_tree.clone()), ser: ser.to_string(), refs: refs.clone(), flags: flags.clone(), max, src: "mc".to_string() };
                out.emit(&gen_event(&inp, &consts, trusted));
            }
        }
    }
    let pool = PuzzlePool::new(&mut r, 4);
    for _ in 0..args.u64("n", 0) {
        let flags = random_gen_flags(&mut r);
        let outp = random_output(&mut r, &consts, &pool, &flags);
        // one in four generators gets 1..3 distinct block references; when its output starts with a
        // well-formed spend, the first parent is then taken from a reference (RefSelProg of Generator.tla)
        let nrefs = if r.random_range(0..4) == 0 { r.random_range(1..4usize) } else { 0 };
        let refs: Vec<Vec<u8>> = (0..nrefs).map(|_| if r.random_range(0..8) == 0 { rand_bytes(&mut r, 31) } else { rand_bytes(&mut r, 32) }).collect();
        let mut refsel = None;
        let mut prog_tree = Sx::cons(Sx::A(vec![1]), outp.clone());
        if nrefs > 0 {
            if let Sx::P(spends, outrest) = &outp {
                if let Sx::P(s1, others) = &**spends {
                    if let Sx::P(_parent, rest) = &**s1 {
                        let k = r.random_range(0..nrefs + 1).min(3);
                        let path: u8 = [9, 21, 45, 93][k];
                        let q = |x: &Sx| Sx::cons(Sx::A(vec![1]), x.clone());
                        let c = |x: Sx, y: Sx| Sx::list(vec![Sx::A(vec![4]), x, y]);
                        prog_tree = c(c(c(Sx::A(vec![path]), q(rest)), q(others)), q(outrest));
                        refsel = Some(k);
                    }
                }
            }
        }
        let ser = if r.random::<bool>() { "plain" } else { "backrefs" };
        let prog = if ser == "plain" { ser_plain(&prog_tree) } else { ser_backrefs(&prog_tree) };
        let inp = GenInput { refsel, prog, prog_tree: Some(prog_tree), ser: ser.to_string(), refs, flags: flags.clone(), max: BLOCK_MAX, src: "random".to_string() };
        let ev = gen_event(&inp, &consts, trusted);
        // cost frontier (C04): re-run accepted generators at total and total - 1
        if ev["native"]["ok"].as_bool() == Some(true) && r.random_range(0..3) == 0 {
            let total = bignat_to_u128(&ev["native"]["r"]["cost"]) as u64;
            out.emit(&ev);
            for (m, fr) in [(total, false), (total.saturating_sub(1), true)] {
                let i2 = GenInput { refsel: inp.refsel, max: m, src: "frontier".to_string(), prog: inp.prog.clone(), prog_tree: inp.prog_tree.clone(), ser: inp.ser.clone(), refs: inp.refs.clone(), flags: inp.flags.clone() };
                let mut e2 = gen_event(&i2, &consts, false);
                if fr {
                    e2["frontier"] = json!(true);
                }
                out.emit(&e2);
            }
        } else {
            out.emit(&ev);
        }
    }
    // listing-cap family (get_coinspends_with_conditions_for_trusted_block keeps only AGG_SIG_* / CREATE_COIN once 1024
    // conditions of a spend are listed): one spend of the identity puzzle whose solution is a long condition list that
    // crosses the cap at a chosen position, with created coins, remarks, long atoms, pairs and > 6 arguments around it
    let ncap = if args.u64("n", 0) == 0 { 0 } else if args.u64("n", 0) >= 2000 { 6 } else { 1 };
    for _ in 0..ncap {
        let ident = Sx::A(vec![1]);
        let ph = tree_hash_sx(&ident);
        let mut conds: Vec<Sx> = Vec::new();
        let low = |r: &mut StdRng| -> Sx {
            match r.random_range(0..4) {
                0 => Sx::list(vec![Sx::A(vec![1])]),
                1 => Sx::list(vec![Sx::A(vec![1]), Sx::A(rand_bytes(r, 3))]),
                2 => Sx::list(vec![Sx::A(vec![73]), Sx::A(vec![3, 232])]),
                _ => Sx::list(vec![Sx::A(vec![1]), Sx::list(vec![Sx::A(vec![7])]), Sx::A(vec![9])]),
            }
        };
        let before = [1020usize, 1022, 1023, 1024, 1025][r.random_range(0..5)];
        for _ in 0..before {
            let c = low(&mut r);
            conds.push(c);
        }
        // not listed at all: atom condition, pair opcode, non-canonical / negative / oversized opcode, 1024-byte argument
        conds.insert(r.random_range(0..20), Sx::list(vec![Sx::A(vec![1]), Sx::A(vec![5u8; 1024])]));
        conds.insert(r.random_range(0..20), Sx::list(vec![Sx::A(vec![1]), Sx::A(vec![5u8; 1023])]));
        conds.insert(r.random_range(0..20), Sx::list(vec![Sx::A(vec![1]), Sx::A(vec![1]), Sx::A(vec![2]), Sx::A(vec![3]), Sx::list(vec![Sx::A(vec![4])]), Sx::A(vec![4]), Sx::A(vec![5]), Sx::A(vec![6]), Sx::A(vec![7]), Sx::A(vec![8u8; 1024])]));
        let mut amt = 1u8;
        for _ in 0..r.random_range(2..6) {
            let c = low(&mut r);
            conds.push(c);
            conds.push(Sx::list(vec![Sx::A(vec![51]), Sx::A(rand_bytes(&mut r, 32)), Sx::A(vec![amt])]));
            amt += 1;
            if r.random::<bool>() {
                conds.push(Sx::list(vec![Sx::A(vec![51]), Sx::A(rand_bytes(&mut r, 32)), Sx::A(vec![0, 128 + amt]), Sx::list(vec![Sx::A(rand_bytes(&mut r, 32))])]));
            }
        }
        let outp = Sx::list(vec![Sx::list(vec![Sx::list(vec![Sx::A(rand_bytes(&mut r, 32)), ident.clone(), Sx::A(vec![3, 232]), Sx::list(conds)])])]);
        let _ = ph;
        let prog_tree = Sx::cons(Sx::A(vec![1]), outp);
        let flags = vec!["DONT_VALIDATE_SIGNATURE".to_string()];
        let inp = GenInput { refsel: None, prog: ser_plain(&prog_tree), prog_tree: Some(prog_tree), ser: "plain".to_string(), refs: vec![], flags, max: BLOCK_MAX, src: "random".to_string() };
        TREE_LIMIT_CUR.store(40_000, std::sync::atomic::Ordering::Relaxed);
        let mut ev = gen_event(&inp, &consts, trusted);
        TREE_LIMIT_CUR.store(TREE_LIMIT, std::sync::atomic::Ordering::Relaxed);
        ev["listcap"] = json!(before);
        out.emit(&ev);
    }
    // the repository's generator corpus (opaque to the spec when the output is large)
    if let Some(dir) = args.get("corpus") {
        let skip: Vec<String> = std::fs::read_to_string("/root/.vp/EMPTIED_FILES.txt").unwrap_or_default().lines().map(|l| l.trim().to_string()).collect();
        let mut names: Vec<_> = std::fs::read_dir(dir).expect("corpus dir").filter_map(|e| e.ok()).map(|e| e.path()).filter(|p| p.extension().is_some_and(|x| x == "txt")).collect();
        names.sort();
        let heavy = args.u64("heavy", 0) == 1;
        for p in names {
            let name = p.file_name().unwrap().to_string_lossy().to_string();
            if skip.iter().any(|s| s.ends_with(&name)) {
                continue;
            }
            if args.u64("verbose", 0) == 1 { eprintln!("corpus {name} {:?}", std::time::SystemTime::now().duration_since(std::time::UNIX_EPOCH).unwrap().as_secs()); }
            let Ok(text) = std::fs::read_to_string(&p) else { continue };
            let Some((hexline, _)) = text.split_once('\n') else { continue };
            let Ok(prog) = hex::decode(hexline.trim()) else { continue };
            if prog.is_empty() {
                continue;
            }
            let big = ["aa-million", "3000000", "29500", "100000", "puzzle-hash-stress", "many-coins-announcement", "single-coin-only-garbage", "infinite-recursion", "deep-recursion", "recursion-pairs", "many-large-ints", "duplicate-coin-announce", "block-"];
            if !heavy && big.iter().any(|b| name.starts_with(b)) {
                continue;
            }
            let mut refs = Vec::new();
            if let Ok(env) = std::fs::read_to_string(p.with_extension("env")) {
                if let Ok(b) = hex::decode(env.trim()) {
                    refs.push(b);
                }
            }
            // quick tier: skip programs that are expensive to run (deterministic: decided by consensus cost)
            let cap = args.u64("max-gen-cost", 0);
            if cap > 0 {
                let r = catch(std::panic::AssertUnwindSafe(|| {
                    run_block_generator2(&prog, refs.iter(), cap, ConsensusFlags::DONT_VALIDATE_SIGNATURE, &Signature::default(), None, &consts.c).map(|_| ())
                }));
                if let Ok(Err(e)) = &r {
                    if err_code(e) == 23 {
                        continue;
                    }
                }
            }
            for fl in [vec!["DONT_VALIDATE_SIGNATURE"], vec!["DONT_VALIDATE_SIGNATURE", "NO_UNKNOWN_CONDS", "STRICT_ARGS_COUNT", "LIMIT_SPENDS", "CLVM_MEMPOOL_MODE"],
                       vec!["DONT_VALIDATE_SIGNATURE", "COST_CONDITIONS"]] {
                let flags: Vec<String> = fl.iter().map(|s| (*s).to_string()).collect();
                let inp = GenInput { refsel: None, prog: prog.clone(), prog_tree: None, ser: "file".to_string(), refs: refs.clone(), flags, max: BLOCK_MAX, src: name.clone() };
                let t0 = std::time::Instant::now();
                out.emit(&gen_event(&inp, &consts, trusted));
                // expensive programs (procedural generators producing millions of conditions) get one flag set only
                if t0.elapsed().as_millis() as u64 > args.u64("file-budget-ms", 1500) {
                    break;
                }
            }
        }
    }
    let n = out.finish();
    println!("{}", json!({"events": n}));
}
