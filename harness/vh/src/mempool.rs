//! C19: mempool rewrites.
//!  "sb"   one spend bundle (salted identity puzzles, the solution IS the condition list) through
//!         run_spendbundle(MEMPOOL_MODE | COMPUTE_FINGERPRINT | DONT_VALIDATE_SIGNATURE): flags + fingerprints
//!  "pair" two bundles spending the same coins whose subject spends are both dedup-eligible and
//!         report EQUAL fingerprints (the premise is a byte comparison; TLC judges the conclusion)
//!  "ff"   one call of fast_forward_singleton on a real singleton spend (singleton top layer from
//!         the chia-puzzles crate) with the puzzle in abstract form (independent tree hashes), the
//!         returned solution, and clvmr runs (oracle) of the puzzle on the old and the new solution
//!         together with parse_spends of both outputs.
use crate::conditions::*;
use crate::generator::{clvm_oracle, salted_identity, ser_plain, tree_hash_sx};
use crate::sx::*;
use crate::util::*;
use chia_bls::Signature;
use chia_consensus::fast_forward::fast_forward_singleton;
use chia_consensus::flags::{ConsensusFlags, MEMPOOL_MODE};
use chia_consensus::owned_conditions::OwnedSpendBundleConditions;
use chia_consensus::puzzle_fingerprint::compute_puzzle_fingerprint;
use chia_consensus::spendbundle_conditions::run_spendbundle;
use chia_protocol::{Bytes32, Coin, CoinSpend, Program, SpendBundle};
use chia_traits::Streamable;
use clvmr::Allocator;
use rand::rngs::StdRng;
use rand::Rng;
use serde_json::{json, Value};
use std::collections::HashSet;

const BLOCK_MAX: u64 = 11_000_000_000;

fn b32(b: &[u8]) -> Bytes32 {
    Bytes32::try_from(b).expect("32 bytes")
}

fn items(s: &Sx) -> (Vec<Sx>, Sx) {
    let mut v = Vec::new();
    let mut cur = s;
    while let Sx::P(l, r) = cur {
        v.push((**l).clone());
        cur = r;
    }
    (v, cur.clone())
}

// ---------------------------------------------------------------------------
// part A: fingerprints and dedup eligibility
// ---------------------------------------------------------------------------

#[derive(Clone)]
pub struct SpendIn {
    pub parent: Vec<u8>,
    pub salt: Vec<u8>,
    pub amount: u64,
    pub conds: Sx,
}

pub struct SbResult {
    pub ev: Value,
    pub summary: Option<Value>,
}

pub fn run_sb(spends: &[SpendIn], fork: &[String], consts: &Consts, src: &str) -> SbResult {
    let mut flags = MEMPOOL_MODE | ConsensusFlags::COMPUTE_FINGERPRINT | ConsensusFlags::DONT_VALIDATE_SIGNATURE;
    flags |= flags_from_names(fork);
    let mut coin_spends = Vec::new();
    let mut sp_json = Vec::new();
    for s in spends {
        let puzzle = salted_identity(&s.salt);
        let ph = tree_hash_sx(&puzzle);
        let coin = Coin::new(b32(&s.parent), b32(&ph), s.amount);
        coin_spends.push(CoinSpend::new(coin, Program::from(ser_plain(&puzzle)), Program::from(ser_plain(&s.conds))));
        sp_json.push(json!({"parent": jbytes(&s.parent), "ph": jbytes(&ph), "amt": bignat_u64(s.amount), "conds": s.conds.to_json()}));
    }
    let bundle = SpendBundle::new(coin_spends, Signature::default());
    let res = catch(std::panic::AssertUnwindSafe(|| {
        let mut a = Allocator::new();
        match run_spendbundle(&mut a, &bundle, BLOCK_MAX, flags, &consts.c) {
            Ok((c, _pkm)) => Ok(summary_json(&OwnedSpendBundleConditions::from(&a, c))),
            Err(e) => Err((err_code(&e) as i64, err_name(&e))),
        }
    }));
    let mut ev = json!({"k": "sb", "src": src, "spends": sp_json, "fork": fork});
    // the fingerprint function called directly on every condition list (also on lists that validation rejects)
    ev["cpf"] = Value::Array(
        spends
            .iter()
            .map(|s| {
                let r = catch(std::panic::AssertUnwindSafe(|| {
                    let mut a = Allocator::new();
                    let n = s.conds.to_node(&mut a);
                    compute_puzzle_fingerprint(&a, n).map(|h| h.to_vec()).map_err(|e| err_name(&e))
                }));
                match r {
                    Ok(Ok(h)) => json!({"ok": true, "fp": jbytes(&h)}),
                    Ok(Err(e)) => json!({"ok": false, "err": e}),
                    Err(p) => json!({"ok": false, "err": format!("PANIC: {p}")}),
                }
            })
            .collect(),
    );
    let mut summary = None;
    match res {
        Ok(Ok(s)) => {
            ev["ok"] = json!(true);
            ev["obs"] = Value::Array(
                s["spends"].as_array().unwrap().iter().map(|o| json!({"amt": o["amt"], "flags": o["flags"], "fp": o["fp"], "id": o["id"]})).collect(),
            );
            summary = Some(s);
        }
        Ok(Err((c, n))) => {
            ev["ok"] = json!(false);
            ev["err"] = json!(c);
            ev["errname"] = json!(n);
        }
        Err(p) => {
            ev["ok"] = json!(false);
            ev["err"] = json!(-1);
            ev["errname"] = json!(format!("PANIC: {p}"));
        }
    }
    SbResult { ev, summary }
}

struct FpOut<'a> {
    out: &'a mut Out,
    seen: HashSet<Vec<u8>>,
    pairs: usize,
    sbs: usize,
}

impl FpOut<'_> {
    fn sb(&mut self, spends: &[SpendIn], fork: &[String], consts: &Consts, src: &str) -> SbResult {
        let r = run_sb(spends, fork, consts, src);
        let mut key = Vec::new();
        for s in spends {
            key.extend_from_slice(&s.parent);
            key.extend_from_slice(&s.salt);
            key.extend_from_slice(&s.amount.to_be_bytes());
            key.extend_from_slice(&ser_plain(&s.conds));
            key.push(0xfe);
        }
        key.extend_from_slice(fork.join(",").as_bytes());
        for d in &consts.doms {
            key.extend_from_slice(&d[..4]);
        }
        if self.seen.insert(sha256(&[&key])) {
            self.out.emit(&r.ev);
            self.sbs += 1;
        }
        r
    }
    /// both bundles spend the same coins and differ in the condition list of spend 0
    fn pair(&mut self, a: &[SpendIn], b: &[SpendIn], fork: &[String], consts: &Consts, src: &str) {
        let ra = self.sb(a, fork, consts, src);
        let rb = self.sb(b, fork, consts, src);
        if let (Some(sa), Some(sb)) = (&ra.summary, &rb.summary) {
            let (oa, ob) = (&sa["spends"][0], &sb["spends"][0]);
            let elig = |o: &Value| o["flags"].as_u64().unwrap_or(0) & 1 == 1;
            if elig(oa) && elig(ob) && oa["fp"] == ob["fp"] && a[0].conds != b[0].conds {
                self.out.emit(&json!({"k": "pair", "src": src, "ca": a[0].conds.to_json(), "cb": b[0].conds.to_json(), "a": sa, "b": sb}));
                self.pairs += 1;
            }
        }
    }
}

fn dec_u64(b: &[u8]) -> Option<u64> {
    if b.len() > 9 || (!b.is_empty() && b[0] & 0x80 != 0) || (b.len() == 9 && b[0] != 0) {
        return None;
    }
    let mut v: u64 = 0;
    for x in b {
        v = (v << 8) | *x as u64;
    }
    Some(v)
}

fn created_sum(conds: &Sx) -> u128 {
    let (cs, _) = items(conds);
    let mut s: u128 = 0;
    for c in cs {
        let (f, _) = items(&c);
        if f.len() >= 3 && f[0] == Sx::A(vec![51]) {
            if let Sx::A(b) = &f[2] {
                if let Some(v) = dec_u64(b) {
                    s += v as u128;
                }
            }
        }
    }
    s
}

/// all paths to atoms below a node
fn atom_paths(s: &Sx, path: &mut Vec<bool>, out: &mut Vec<Vec<bool>>) {
    match s {
        Sx::A(_) => out.push(path.clone()),
        Sx::P(l, r) => {
            path.push(false);
            atom_paths(l, path, out);
            path.pop();
            path.push(true);
            atom_paths(r, path, out);
            path.pop();
        }
    }
}

fn replace_at(s: &Sx, path: &[bool], f: &mut dyn FnMut(&Sx) -> Sx) -> Sx {
    if path.is_empty() {
        return f(s);
    }
    match s {
        Sx::P(l, r) => {
            if path[0] {
                Sx::cons((**l).clone(), replace_at(r, &path[1..], f))
            } else {
                Sx::cons(replace_at(l, &path[1..], f), (**r).clone())
            }
        }
        Sx::A(_) => s.clone(),
    }
}

fn mutate_atom(r: &mut StdRng, b: &[u8]) -> Vec<u8> {
    let mut v = b.to_vec();
    match r.random_range(0..8) {
        0 => v.push(0),
        1 => v.insert(0, 0),
        2 => {
            v.pop();
        }
        3 => v.clear(),
        4 if !v.is_empty() => {
            let i = r.random_range(0..v.len());
            v[i] ^= 1 << r.random_range(0..8);
        }
        5 => v.push(r.random::<u8>()),
        6 => v = vec![r.random_range(0..100u8)],
        _ => {
            if !v.is_empty() {
                let i = r.random_range(0..v.len());
                v[i] = v[i].wrapping_add(1);
            } else {
                v.push(1);
            }
        }
    }
    v
}

/// one random perturbation of a condition list
fn perturb(r: &mut StdRng, conds: &Sx, hashes: &[Vec<u8>]) -> Sx {
    let (mut cs, tail) = items(conds);
    let choice = r.random_range(0..10);
    if cs.is_empty() || choice == 0 {
        // insert a condition that the fingerprint ignores or that has no effect
        let c = match r.random_range(0..4) {
            0 => Sx::list(vec![Sx::A(vec![1])]),
            1 => Sx::list(vec![Sx::A(vec![1]), Sx::A(rand_bytes(r, 3))]),
            2 => Sx::list(vec![Sx::A(vec![60]), Sx::A(rand_bytes(r, 2))]),
            _ => Sx::list(vec![Sx::A(vec![83]), Sx::nil()]),
        };
        let i = r.random_range(0..=cs.len());
        cs.insert(i, c);
        return Sx::list_tail(cs, tail);
    }
    let i = r.random_range(0..cs.len());
    let (mut f, ctail) = items(&cs[i]);
    match choice {
        1 => {
            cs.remove(i);
        }
        2 | 3 => {
            // move one byte between two adjacent top-level atoms of the condition (length split)
            let idx: Vec<usize> = (0..f.len().saturating_sub(1)).filter(|k| f[*k].is_atom() && f[*k + 1].is_atom()).collect();
            if !idx.is_empty() {
                let k = idx[r.random_range(0..idx.len())];
                if let (Sx::A(x), Sx::A(y)) = (f[k].clone(), f[k + 1].clone()) {
                    let (mut x, mut y) = (x, y);
                    if r.random::<bool>() && !x.is_empty() {
                        y.insert(0, x.pop().unwrap());
                    } else if !y.is_empty() {
                        x.push(y.remove(0));
                    }
                    f[k] = Sx::A(x);
                    f[k + 1] = Sx::A(y);
                }
            }
            cs[i] = Sx::list_tail(f, ctail);
        }
        4 | 5 => {
            // hint shape of a CREATE_COIN (or an extra argument on anything else)
            f.truncate(3);
            let h = hashes[r.random_range(0..hashes.len())].clone();
            match r.random_range(0..10) {
                0 => {}
                1 => f.push(Sx::nil()),
                2 => f.push(Sx::list(vec![Sx::nil()])),
                3 => f.push(Sx::list(vec![Sx::A(h)])),
                4 => f.push(Sx::list(vec![Sx::A(vec![4u8; 33])])),
                5 => f.push(Sx::list(vec![Sx::A(h[..31].to_vec())])),
                6 => f.push(Sx::list(vec![Sx::list(vec![Sx::A(h)])])),
                7 => f.push(Sx::list(vec![Sx::A(h), Sx::A(rand_bytes(r, 4))])),
                8 => f.push(Sx::A(h)),
                _ => f.push(Sx::list(vec![Sx::A(vec![0])])),
            }
            cs[i] = Sx::list_tail(f, ctail);
        }
        6 => {
            // something the fingerprint does not cover: a further memo, or REMARK arguments
            if f.len() == 4 && !f[3].is_atom() {
                let (mut m, mt) = items(&f[3]);
                m.push(Sx::A(rand_bytes(r, 5)));
                f[3] = Sx::list_tail(m, mt);
            } else if f.first() == Some(&Sx::A(vec![1])) {
                f.push(Sx::A(rand_bytes(r, 2)));
            } else if f.len() == 3 && f[0] == Sx::A(vec![51]) {
                f.push(Sx::list(vec![Sx::list(vec![Sx::A(rand_bytes(r, 3))])]));
            }
            cs[i] = Sx::list_tail(f, ctail);
        }
        _ => {
            // replace one atom anywhere in the condition
            let mut paths = Vec::new();
            atom_paths(&cs[i], &mut Vec::new(), &mut paths);
            let p = paths[r.random_range(0..paths.len())].clone();
            let mut rr = r.clone();
            cs[i] = replace_at(&cs[i], &p, &mut |x| match x {
                Sx::A(b) => Sx::A(mutate_atom(&mut rr, b)),
                o => o.clone(),
            });
            let _ = r.random::<u8>();
        }
    }
    Sx::list_tail(cs, tail)
}

fn fp_cases(c: &Value, fo: &mut FpOut<'_>, index: usize, both_forks: bool) {
    let consts = Consts::from_doms(std::array::from_fn(|i| vec![101 + i as u8; 32]));
    let subj = |conds: &Value| SpendIn { parent: from_jbytes(&c["parent1"]), salt: from_jbytes(&c["salt1"]), amount: bignat_to_u128(&c["amt1"]) as u64, conds: Sx::from_json(conds) };
    let funder = SpendIn { parent: from_jbytes(&c["parent2"]), salt: from_jbytes(&c["salt2"]), amount: bignat_to_u128(&c["amt2"]) as u64, conds: Sx::nil() };
    for (k, fork) in [vec![], vec!["COST_CONDITIONS".to_string()]].into_iter().enumerate() {
        if both_forks || index % 2 == k {
            fo.pair(&[subj(&c["c1"]), funder.clone()], &[subj(&c["c2"]), funder.clone()], &fork, &consts, "mc");
        }
    }
}

fn fp_random(r: &mut StdRng, fo: &mut FpOut<'_>, n: u64) {
    let salts: Vec<Vec<u8>> = (0..5).map(|i| if i == 0 { vec![] } else { rand_bytes(r, 3) }).collect();
    let pool: Vec<Vec<u8>> = salts.iter().map(|s| tree_hash_sx(&salted_identity(s))).collect();
    for _ in 0..n {
        let consts = Consts::random(r);
        let clean = r.random_range(0..10) < 8;
        let tree = {
            let mut g = Gen::new(r, &consts);
            g.clean = clean;
            g.no_unknown = true;
            g.ph_pool = Some(pool.clone());
            gen_bundle(&mut g, 3, 5)
        };
        // the generator produces output form ((parent ph amount conds) ...): recover the spends
        let Sx::P(spend_list, _) = &tree else { continue };
        let (sps, _) = items(spend_list);
        let mut spends = Vec::new();
        for sp in sps {
            let (f, _) = items(&sp);
            if f.len() < 4 {
                continue;
            }
            let (Sx::A(p), Sx::A(ph), Sx::A(amt)) = (&f[0], &f[1], &f[2]) else { continue };
            let (Some(idx), Some(amount)) = (pool.iter().position(|h| h == ph), dec_u64(amt)) else { continue };
            if p.len() != 32 {
                continue;
            }
            spends.push(SpendIn { parent: p.clone(), salt: salts[idx].clone(), amount, conds: f[3].clone() });
        }
        if spends.is_empty() {
            continue;
        }
        // clean bundles create less than they spend: top some spends up to (around) their own amount
        for s in spends.iter_mut() {
            if r.random_range(0..3) > 0 {
                let have = created_sum(&s.conds);
                let target = match r.random_range(0..8) {
                    0 => (s.amount as u128).saturating_sub(1),
                    1 => s.amount as u128 + 1,
                    _ => s.amount as u128,
                };
                if target > have && target - have <= u64::MAX as u128 {
                    let hint = match r.random_range(0..4) {
                        0 => vec![Sx::list(vec![Sx::A(rand_bytes(r, 32))])],
                        1 => vec![Sx::list(vec![Sx::A(rand_bytes(r, 2)), Sx::A(rand_bytes(r, 2))])],
                        _ => vec![],
                    };
                    let mut c = vec![Sx::A(vec![51]), Sx::A(rand_bytes(r, 32)), Sx::uint(target - have)];
                    c.extend(hint);
                    let (mut cs, t) = items(&s.conds);
                    let at = r.random_range(0..=cs.len());
                    cs.insert(at, Sx::list(c));
                    s.conds = Sx::list_tail(cs, t);
                }
            }
        }
        let fork: Vec<String> = if r.random::<bool>() { vec![] } else { vec!["COST_CONDITIONS".to_string()] };
        let base = fo.sb(&spends, &fork, &consts, "random");
        // perturbations of the first spend, paired with the base bundle
        let k = if base.summary.is_some() { 4 } else { 1 };
        for _ in 0..k {
            let mut other = spends.clone();
            other[0].conds = perturb(r, &spends[0].conds, &pool);
            fo.pair(&spends, &other, &fork, &consts, "random");
        }
    }
}

// ---------------------------------------------------------------------------
// part B: fast forward of singleton spends
// ---------------------------------------------------------------------------

fn singleton_mod() -> Sx {
    let mut a = Allocator::new();
    let n = clvmr::serde::node_from_bytes(&mut a, &chia_puzzles::SINGLETON_TOP_LAYER_V1_1).expect("singleton mod");
    Sx::from_node(&a, n)
}

/// (a (q . prog) (c (q . a1) (c (q . a2) ... 1)))
fn curry(prog: &Sx, args: &[Sx]) -> Sx {
    let mut env = Sx::A(vec![1]);
    for x in args.iter().rev() {
        env = Sx::list(vec![Sx::A(vec![4]), Sx::cons(Sx::A(vec![1]), x.clone()), env]);
    }
    Sx::list(vec![Sx::A(vec![2]), Sx::cons(Sx::A(vec![1]), prog.clone()), env])
}

/// inverse of curry on the model tree (no use of the code under test)
fn uncurry(p: &Sx) -> Option<(Sx, Vec<Sx>)> {
    let (f, t) = items(p);
    if f.len() != 3 || t != Sx::nil() || f[0] != Sx::A(vec![2]) {
        return None;
    }
    let Sx::P(q, prog) = &f[1] else { return None };
    if **q != Sx::A(vec![1]) {
        return None;
    }
    let mut args = Vec::new();
    let mut env = f[2].clone();
    loop {
        if env == Sx::A(vec![1]) {
            break;
        }
        let (e, et) = items(&env);
        if e.len() != 3 || et != Sx::nil() || e[0] != Sx::A(vec![4]) {
            return None;
        }
        let Sx::P(q, a) = &e[1] else { return None };
        if **q != Sx::A(vec![1]) {
            return None;
        }
        args.push((**a).clone());
        env = e[2].clone();
    }
    Some(((**prog).clone(), args))
}

#[derive(Clone)]
struct CoinIn {
    parent: Vec<u8>,
    ph: Vec<u8>,
    amt: u64,
}

impl CoinIn {
    fn from_json(v: &Value) -> CoinIn {
        CoinIn { parent: from_jbytes(&v["parent"]), ph: from_jbytes(&v["ph"]), amt: bignat_to_u128(&v["amt"]) as u64 }
    }
    fn to_json(&self) -> Value {
        json!({"parent": jbytes(&self.parent), "ph": jbytes(&self.ph), "amt": bignat_u64(self.amt)})
    }
    fn coin(&self) -> Coin {
        Coin::new(b32(&self.parent), b32(&self.ph), self.amt)
    }
    fn id(&self) -> Vec<u8> {
        sha256(&[&self.parent, &self.ph, &enc_uint(self.amt as u128)])
    }
}

struct FfIn {
    /// the puzzle reveal and its abstract description
    puzzle: Sx,
    shape: String,
    prog_hash: Vec<u8>,
    structsx: Sx,
    inner_hash: Vec<u8>,
    sol: Sx,
    coin: CoinIn,
    nc: CoinIn,
    np: CoinIn,
    label: String,
    src: String,
}

const FUNDER_PARENT: [u8; 32] = [0x77; 32];
const FUNDER_PH: [u8; 32] = [0x78; 32];
const FUNDER_AMT: u64 = u64::MAX;

/// the output of a puzzle run as a one-spend bundle (plus a funder so that value conservation is
/// not what decides) through parse_spends with the mempool visitor
fn parse_output(out: &Sx, coin: &CoinIn, consts: &Consts) -> Value {
    let sp = Sx::list(vec![Sx::A(coin.parent.clone()), Sx::A(coin.ph.clone()), Sx::uint(coin.amt as u128), out.clone()]);
    // two funders (the second one's parent is the funder puzzle hash), see Funders(e) in Trace_Mempool.tla
    let funder = Sx::list(vec![Sx::A(FUNDER_PARENT.to_vec()), Sx::A(FUNDER_PH.to_vec()), Sx::uint(FUNDER_AMT as u128), Sx::nil()]);
    let funder2 = Sx::list(vec![Sx::A(FUNDER_PH.to_vec()), Sx::A(FUNDER_PH.to_vec()), Sx::uint(FUNDER_AMT as u128), Sx::nil()]);
    let tree = Sx::list(vec![Sx::list(vec![sp, funder, funder2])]);
    run_parse_spends(&tree, ConsensusFlags::DONT_VALIDATE_SIGNATURE, BLOCK_MAX, 0, true, consts)
}

fn ff_event(i: &FfIn, consts: &Consts) -> Value {
    let res = catch(std::panic::AssertUnwindSafe(|| {
        let mut a = Allocator::new();
        let p = i.puzzle.to_node(&mut a);
        let s = i.sol.to_node(&mut a);
        match fast_forward_singleton(&mut a, p, s, &i.coin.coin(), &i.nc.coin(), &i.np.coin()) {
            Ok(n) => Ok(Sx::from_node(&a, n)),
            Err(e) => Err(format!("{e:?}")),
        }
    }));
    let mut ev = json!({"k": "ff", "src": i.src, "label": i.label, "shape": i.shape, "prog_hash": jbytes(&i.prog_hash), "structsx": i.structsx.to_json(),
        "inner_hash": jbytes(&i.inner_hash), "ph_full": jbytes(&tree_hash_sx(&i.puzzle)), "sol": i.sol.to_json(),
        "coin": i.coin.to_json(), "nc": i.nc.to_json(), "np": i.np.to_json(), "consts": consts.to_json(),
        "funder": {"parent": jbytes(&FUNDER_PARENT), "ph": jbytes(&FUNDER_PH), "amt": bignat_u64(FUNDER_AMT)}});
    let flags = ConsensusFlags::empty();
    let out1 = clvm_oracle(&i.puzzle, &i.sol, flags, 4000);
    let usable = |o: &Value| o["ok"].as_bool() == Some(true) && o["big"].as_bool() == Some(false);
    let mut vk = Vec::new();
    if usable(&out1) {
        let o = Sx::from_json(&out1["res"]);
        collect_48(&o, &mut vk);
        ev["ps1"] = parse_output(&o, &i.coin, consts);
    }
    match res {
        Ok(Ok(ns)) => {
            ev["ff"] = json!({"ok": true, "newsol": ns.to_json()});
            let out2 = clvm_oracle(&i.puzzle, &ns, flags, 4000);
            if usable(&out2) {
                let o = Sx::from_json(&out2["res"]);
                collect_48(&o, &mut vk);
                ev["ps2"] = parse_output(&o, &i.nc, consts);
            }
            ev["out2"] = out2;
        }
        Ok(Err(e)) => ev["ff"] = json!({"ok": false, "err": e}),
        Err(p) => ev["ff"] = json!({"ok": false, "err": format!("PANIC: {p}")}),
    }
    ev["out1"] = out1;
    ev["vk"] = Value::Array(vk.iter().filter(|k| key_valid(k)).map(|k| jbytes(k)).collect());
    ev
}

/// a case from MC_FastForward: everything is chosen by TLC; the harness only assembles the reveal
fn ff_case(c: &Value, modsx: &Sx, consts: &Consts) -> Value {
    let prog = if c["prog"].as_str() == Some("singleton") { modsx.clone() } else { Sx::from_json(&c["progsx"]) };
    let structsx = Sx::from_json(&c["structsx"]);
    let inner = Sx::from_json(&c["inner"]);
    let shape = c["shape"].as_str().unwrap_or("curried").to_string();
    let puzzle = match shape.as_str() {
        "curried" => curry(&prog, &[structsx.clone(), inner.clone()]),
        "three" => curry(&prog, &[structsx.clone(), inner.clone(), Sx::A(vec![7])]),
        "one" => curry(&prog, &[structsx.clone()]),
        _ => prog.clone(),
    };
    let i = FfIn {
        puzzle,
        shape,
        prog_hash: tree_hash_sx(&prog),
        structsx,
        inner_hash: tree_hash_sx(&inner),
        sol: Sx::from_json(&c["sol"]),
        coin: CoinIn::from_json(&c["coin"]),
        nc: CoinIn::from_json(&c["nc"]),
        np: CoinIn::from_json(&c["np"]),
        label: c["label"].as_array().map(|a| a.iter().filter_map(|x| x.as_str()).collect::<Vec<_>>().join("+")).unwrap_or_default(),
        src: "mc".to_string(),
    };
    ff_event(&i, consts)
}

const ODD_AMOUNTS: [u64; 14] = [1, 3, 5, 0x7f, 0x81, 0xff, 0x101, 0x7fff, 0x8001, 0xffff_ffff, 0x1_0000_0001, 0x7fff_ffff_ffff_ffff, 0x8000_0000_0000_0001, 0xffff_ffff_ffff_ffff];

fn pick_amt(r: &mut StdRng, odd: bool) -> u64 {
    let v = if r.random_range(0..3) == 0 { r.random::<u64>() | 1 } else { ODD_AMOUNTS[r.random_range(0..ODD_AMOUNTS.len())] };
    if odd { v } else { v.wrapping_sub(1) }
}

/// rebase targets and corruptions of a well-formed singleton spend
fn ff_variants(r: &mut StdRng, base: &FfIn, n: usize, consts: &Consts, out: &mut Out) {
    for k in 0..n {
        let np_parent = match r.random_range(0..4) {
            0 => vec![0u8; 32],
            1 => vec![0xff; 32],
            _ => rand_bytes(r, 32),
        };
        let same_amounts = r.random_range(0..3) == 0;
        let np = CoinIn { parent: np_parent, ph: base.coin.ph.clone(), amt: if same_amounts { base.coin.amt } else { pick_amt(r, true) } };
        let nc = CoinIn { parent: np.id(), ph: base.coin.ph.clone(), amt: if same_amounts { base.coin.amt } else { pick_amt(r, true) } };
        let mut i = FfIn {
            puzzle: base.puzzle.clone(), shape: base.shape.clone(), prog_hash: base.prog_hash.clone(), structsx: base.structsx.clone(),
            inner_hash: base.inner_hash.clone(), sol: base.sol.clone(), coin: base.coin.clone(), nc, np, label: "rebase".to_string(), src: base.src.clone(),
        };
        if k > 0 && r.random_range(0..3) > 0 {
            // one corruption of the call arguments or of the solution
            let flip = |r: &mut StdRng, b: &mut Vec<u8>| {
                let j = r.random_range(0..b.len());
                b[j] ^= 1 << r.random_range(0..8);
            };
            let c = r.random_range(0..16);
            i.label = format!("corrupt{c}");
            match c {
                0 => i.coin.amt = i.coin.amt.wrapping_sub(1),
                1 => i.nc.amt = i.nc.amt.wrapping_sub(1),
                2 => i.np.amt = i.np.amt.wrapping_sub(1),
                3 => i.coin.amt = i.coin.amt.wrapping_add(2),
                4 => flip(r, &mut i.coin.parent),
                5 => flip(r, &mut i.coin.ph),
                6 => flip(r, &mut i.nc.ph),
                7 => flip(r, &mut i.np.ph),
                8 => flip(r, &mut i.nc.parent),
                9 => {
                    flip(r, &mut i.np.parent);
                }
                10 => {
                    i.np.amt = i.np.amt.wrapping_add(2);
                }
                _ => {
                    // corrupt one atom of the solution's proof / amount (not the inner solution)
                    let (f, t) = items(&i.sol);
                    if f.len() >= 2 {
                        let mut f = f;
                        let which = r.random_range(0..2usize);
                        let mut paths = Vec::new();
                        atom_paths(&f[which], &mut Vec::new(), &mut paths);
                        // list terminators are mutated rarely (ignored tails are a known finding, C19_TAIL)
                        let non_term: Vec<Vec<bool>> = paths.iter().filter(|p| p.last() == Some(&false) || p.is_empty()).cloned().collect();
                        if !non_term.is_empty() && r.random_range(0..12) > 0 {
                            paths = non_term;
                        }
                        let p = paths[r.random_range(0..paths.len())].clone();
                        let mut rr = r.clone();
                        f[which] = replace_at(&f[which], &p, &mut |x| match x {
                            Sx::A(b) => Sx::A(mutate_atom(&mut rr, b)),
                            o => o.clone(),
                        });
                        let _ = r.random::<u64>();
                        i.sol = Sx::list_tail(f, t);
                    }
                }
            }
        }
        out.emit(&ff_event(&i, consts));
    }
}

fn ff_file(path: &str) -> Option<FfIn> {
    let bytes = std::fs::read(path).ok()?;
    let spend = CoinSpend::from_bytes(&bytes).ok()?;
    let mut a = Allocator::new();
    let p = clvmr::serde::node_from_bytes(&mut a, spend.puzzle_reveal.as_ref()).ok()?;
    let s = clvmr::serde::node_from_bytes(&mut a, spend.solution.as_ref()).ok()?;
    let puzzle = Sx::from_node(&a, p);
    let sol = Sx::from_node(&a, s);
    let (prog, args) = uncurry(&puzzle)?;
    if args.len() != 2 {
        return None;
    }
    let coin = CoinIn { parent: spend.coin.parent_coin_info.as_ref().to_vec(), ph: spend.coin.puzzle_hash.as_ref().to_vec(), amt: spend.coin.amount };
    Some(FfIn {
        puzzle, shape: "curried".to_string(), prog_hash: tree_hash_sx(&prog), structsx: args[0].clone(), inner_hash: tree_hash_sx(&args[1]), sol,
        nc: coin.clone(), np: coin.clone(), coin, label: "file".to_string(), src: path.rsplit('/').next().unwrap_or("").to_string(),
    })
}

/// a random well-formed singleton spend: identity or quoted inner puzzle with random conditions
fn ff_random_base(r: &mut StdRng, modsx: &Sx, mod_hash: &[u8]) -> FfIn {
    let launcher = rand_bytes(r, 32);
    let lph = chia_puzzles::SINGLETON_LAUNCHER_HASH.to_vec();
    let structsx = Sx::cons(Sx::A(mod_hash.to_vec()), Sx::cons(Sx::A(launcher), Sx::A(lph)));
    let amt = pick_amt(r, true);
    let identity_inner = r.random_range(0..4) > 0;
    let id_hash = tree_hash_sx(&Sx::A(vec![1]));
    // inner conditions: one odd CREATE_COIN (the singleton continues) plus harmless extras
    let mut conds = Vec::new();
    let keep_amount = r.random_range(0..4) > 0;
    let out_amt = if keep_amount { amt } else { pick_amt(r, true) };
    let mut cc = vec![Sx::A(vec![51]), Sx::A(if identity_inner { id_hash.clone() } else { rand_bytes(r, 32) }), Sx::uint(out_amt as u128)];
    if r.random::<bool>() {
        cc.push(Sx::list(vec![Sx::A(rand_bytes(r, 32))]));
    }
    conds.push(Sx::list(cc));
    for _ in 0..r.random_range(0..4) {
        let c = match r.random_range(0..10) {
            0 => Sx::list(vec![Sx::A(vec![1])]),
            1 => Sx::list(vec![Sx::A(vec![83]), Sx::uint(r.random_range(0..1000))]),
            2 => Sx::list(vec![Sx::A(vec![51]), Sx::A(rand_bytes(r, 32)), Sx::uint(2 * r.random_range(0..1000u128))]),
            3 => Sx::list(vec![Sx::A(vec![52]), Sx::uint(r.random_range(0..100))]),
            4 => Sx::list(vec![Sx::A(vec![62]), Sx::A(rand_bytes(r, 4))]),
            5 => Sx::list(vec![Sx::A(vec![73]), Sx::uint(amt as u128)]),
            6 => Sx::list(vec![Sx::A(vec![60]), Sx::A(rand_bytes(r, 4))]),
            7 => Sx::list(vec![Sx::A(vec![82]), Sx::uint(r.random_range(0..100))]),
            8 => Sx::list(vec![Sx::A(vec![85]), Sx::uint(4_000_000_000)]),
            _ => Sx::list(vec![Sx::A(vec![87]), Sx::uint(4_000_000)]),
        };
        let at = r.random_range(0..=conds.len());
        conds.insert(at, c);
    }
    let conds = Sx::list(conds);
    let (inner, inner_sol) = if identity_inner { (Sx::A(vec![1]), conds) } else { (Sx::cons(Sx::A(vec![1]), conds), Sx::nil()) };
    let inner_hash = tree_hash_sx(&inner);
    let puzzle = curry(modsx, &[structsx.clone(), inner.clone()]);
    let ph = tree_hash_sx(&puzzle);
    // the parent: same singleton (same inner puzzle), any amount
    let pp = rand_bytes(r, 32);
    let pamt = if r.random::<bool>() { amt } else { pick_amt(r, true) };
    let parent = CoinIn { parent: pp.clone(), ph: ph.clone(), amt: pamt };
    let coin = CoinIn { parent: parent.id(), ph, amt };
    let sol = Sx::list(vec![Sx::list(vec![Sx::A(pp), Sx::A(inner_hash.clone()), Sx::uint(pamt as u128)]), Sx::uint(amt as u128), inner_sol]);
    FfIn { puzzle, shape: "curried".to_string(), prog_hash: mod_hash.to_vec(), structsx, inner_hash, sol, nc: coin.clone(), np: coin.clone(), coin, label: "random".to_string(), src: "random".to_string() }
}

pub fn record(args: &Args) {
    let seed = args.u64("seed", 1);
    let mut r = rng(seed);
    let mut out = Out::create(args.req("out"));
    let part = args.get("part").unwrap_or("fp").to_string();
    if part == "fp" {
        let mut fo = FpOut { out: &mut out, seen: HashSet::new(), pairs: 0, sbs: 0 };
        if let Some(cases) = args.get("cases") {
            let both = args.u64("both-forks", 0) == 1;
            for (i, c) in read_ndjson(cases).iter().enumerate() {
                fp_cases(c, &mut fo, i, both);
            }
        }
        fp_random(&mut r, &mut fo, args.u64("n", 0));
        let (p, s) = (fo.pairs, fo.sbs);
        let n = out.finish();
        println!("{}", json!({"events": n, "pairs": p, "sbs": s}));
        return;
    }
    let consts = Consts::random(&mut r);
    let modsx = singleton_mod();
    let mod_hash = tree_hash_sx(&modsx);
    assert_eq!(mod_hash, chia_puzzles::SINGLETON_TOP_LAYER_V1_1_HASH.to_vec(), "singleton mod hash");
    if let Some(cases) = args.get("cases") {
        for c in read_ndjson(cases) {
            out.emit(&ff_case(&c, &modsx, &consts));
        }
    }
    let per = args.u64("variants", 8) as usize;
    if let Some(dir) = args.get("ff-tests") {
        for f in ["e3c0.spend", "bb13.spend"] {
            match ff_file(&format!("{dir}/{f}")) {
                Some(base) => ff_variants(&mut r, &base, per * args.u64("file-factor", 4) as usize, &consts, &mut out),
                None => panic!("cannot load {dir}/{f}"),
            }
        }
    }
    for _ in 0..args.u64("n", 0) {
        let base = ff_random_base(&mut r, &modsx, &mod_hash);
        ff_variants(&mut r, &base, per, &consts, &mut out);
    }
    let n = out.finish();
    println!("{}", json!({"events": n}));
}
