//! growth item X01: get_flags_for_height_and_constants over fork-height orderings
use crate::util::*;
use chia_consensus::consensus_constants::TEST_CONSTANTS;
use chia_consensus::flags::ConsensusFlags;
use chia_consensus::spendbundle_validation::get_flags_for_height_and_constants;
use rand::Rng;
use serde_json::json;

const NAMES: [(&str, ConsensusFlags); 14] = [
    ("ENABLE_KECCAK_OPS_OUTSIDE_GUARD", ConsensusFlags::ENABLE_KECCAK_OPS_OUTSIDE_GUARD), ("COST_CONDITIONS", ConsensusFlags::COST_CONDITIONS),
    ("ENABLE_SECP_OPS", ConsensusFlags::ENABLE_SECP_OPS), ("RELAXED_BLS", ConsensusFlags::RELAXED_BLS), ("DISABLE_OP", ConsensusFlags::DISABLE_OP),
    ("SIMPLE_GENERATOR", ConsensusFlags::SIMPLE_GENERATOR), ("CANONICAL_INTS", ConsensusFlags::CANONICAL_INTS), ("LIMITS", ConsensusFlags::LIMITS),
    ("LIMIT_SPENDS", ConsensusFlags::LIMIT_SPENDS), ("NO_UNKNOWN_CONDS", ConsensusFlags::NO_UNKNOWN_CONDS), ("STRICT_ARGS_COUNT", ConsensusFlags::STRICT_ARGS_COUNT),
    ("INTERNED_GENERATOR", ConsensusFlags::INTERNED_GENERATOR), ("DONT_VALIDATE_SIGNATURE", ConsensusFlags::DONT_VALIDATE_SIGNATURE), ("NO_UNKNOWN_OPS", ConsensusFlags::NO_UNKNOWN_OPS),
];

pub fn record(args: &Args) {
    let mut r = rng(args.u64("seed", 1));
    let mut out = Out::create(args.req("out"));
    let pts: [u32; 8] = [0, 1, 2, 1000, 8_655_000, u32::MAX - 1, u32::MAX, 77];
    for _ in 0..args.u64("n", 500) {
        let mut c = TEST_CONSTANTS.clone();
        let mut pick = |r: &mut rand::rngs::StdRng| if r.random::<bool>() { pts[r.random_range(0..pts.len())] } else { r.random::<u32>() >> r.random_range(0..32u32) };
        c.hard_fork2_height = pick(&mut r);
        c.soft_fork8_height = pick(&mut r);
        c.soft_fork9_height = pick(&mut r);
        for t in [c.hard_fork2_height, c.soft_fork8_height, c.soft_fork9_height, pick(&mut r)] {
            for d in [-1i64, 0, 1] {
                let h = (t as i64 + d).clamp(0, u32::MAX as i64) as u32;
                let f = get_flags_for_height_and_constants(h, &c);
                let mut names: Vec<&str> = NAMES.iter().filter(|(_, b)| f.contains(*b)).map(|(n, _)| *n).collect();
                let known = NAMES.iter().fold(ConsensusFlags::empty(), |a, (_, b)| a | *b);
                if !(f - known).is_empty() {
                    names.push("UNKNOWN_BITS");
                }
                out.emit(&json!({"k": "flags", "h": bignat_u64(h as u64), "hf2": bignat_u64(c.hard_fork2_height as u64),
                    "sf8": bignat_u64(c.soft_fork8_height as u64), "sf9": bignat_u64(c.soft_fork9_height as u64), "flags": names}));
            }
        }
    }
    let n = out.finish();
    println!("{}", json!({"events": n}));
}
