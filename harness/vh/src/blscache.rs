//! C15: signature verification paths and the concurrent pairing cache.
//!
//! Concurrent part: real OS threads run `BlsCache::aggregate_verify` under a baton scheduler
//! driven by the `verif-hooks` yield callback (called immediately before every Mutex
//! acquisition in BlsCache): exactly one thread runs from one yield point to the next, so a
//! schedule (sequence of thread ids / environment operations) is replayed deterministically.
//! After every critical section `len()` and `verif_keys()` are logged, at the end the verdicts
//! and one probe verification per cached entry.
//! Sequential part: one pair list and one signature through verify, aggregate_verify,
//! BlsCache::aggregate_verify (cold and warm), aggregate_verify_gt over freshly computed
//! pairings and validate_clvm_and_signature.
//! Inputs are built with raw blst (signing, aggregation, the off-subgroup point); raw blst's
//! own aggregate verification is logged as an independent oracle.
use crate::util::*;
use blst::*;
use chia_bls::{aggregate_verify, aggregate_verify_gt, hash_to_g2, verify, BlsCache, GTElement, PublicKey, SecretKey, Signature};
use rand::rngs::StdRng;
use rand::Rng;
use serde_json::{json, Value};
use std::cell::Cell;
use std::collections::HashMap;
use std::num::NonZeroUsize;
use std::panic::AssertUnwindSafe;
use std::sync::{Arc, Condvar, Mutex};
use std::time::Duration;

const DST: &[u8] = b"BLS_SIG_BLS12381G2_XMD:SHA-256_SSWU_RO_AUG_";
type Pair = (usize, usize);

// ---------------------------------------------------------------------------------------
// concrete world: key id 0 = point at infinity, message id 0 = empty message

struct World {
    pks: Vec<PublicKey>,
    pkb: Vec<[u8; 48]>,
    msgs: Vec<Vec<u8>>,
    sig1: HashMap<Pair, blst_p2_affine>,
    off: blst_p2_affine,
}

fn p2_uncompress(b: &[u8; 96]) -> Option<blst_p2_affine> {
    let mut a = blst_p2_affine::default();
    let e = unsafe { blst_p2_uncompress(&mut a, b.as_ptr()) };
    if e == BLST_ERROR::BLST_SUCCESS { Some(a) } else { None }
}

/// an on-curve point of E'(Fp2) outside the order-r subgroup, found by trial
fn find_off_subgroup(r: &mut StdRng) -> blst_p2_affine {
    loop {
        let mut b = [0u8; 96];
        for x in b.iter_mut() {
            *x = r.random::<u8>();
        }
        b[0] = (b[0] & 0x1f) % 0x1a | 0x80 | (if r.random::<bool>() { 0x20 } else { 0 });
        b[48] %= 0x1a;
        if let Some(a) = p2_uncompress(&b) {
            let on = unsafe { blst_p2_affine_on_curve(&a) };
            let ing2 = unsafe { blst_p2_affine_in_g2(&a) };
            let inf = unsafe { blst_p2_affine_is_inf(&a) };
            if on && !ing2 && !inf {
                return a;
            }
        }
    }
}

impl World {
    fn new(r: &mut StdRng, nkeys: usize, nmsgs: usize) -> World {
        let mut pks = vec![PublicKey::default()];
        let mut inf = [0u8; 48];
        inf[0] = 0xc0;
        let mut pkb = vec![inf];
        let mut rsk = Vec::new();
        for _ in 0..nkeys {
            let seed = rand_bytes(r, 32);
            let sk = SecretKey::from_seed(&seed);
            let raw = min_pk::SecretKey::from_bytes(&sk.to_bytes()).expect("raw secret key");
            let rpk = raw.sk_to_pk().compress();
            let pk = sk.public_key();
            assert!(pk.to_bytes() == rpk, "public key encoding differs from raw blst");
            pks.push(pk);
            pkb.push(rpk);
            rsk.push(raw);
        }
        let mut msgs: Vec<Vec<u8>> = vec![vec![]];
        while msgs.len() < nmsgs {
            let n = r.random_range(1..=64);
            let m = rand_bytes(r, n);
            if !msgs.contains(&m) {
                msgs.push(m);
            }
        }
        let mut sig1 = HashMap::new();
        for k in 1..=nkeys {
            for (m, msg) in msgs.iter().enumerate() {
                // augmented scheme: H(pk || msg)
                let s = rsk[k - 1].sign(msg, DST, &pkb[k]).compress();
                sig1.insert((k, m), p2_uncompress(&s).expect("own signature"));
            }
        }
        let off = find_off_subgroup(r);
        World { pks, pkb, msgs, sig1, off }
    }

    fn aug(&self, p: Pair) -> Vec<u8> {
        let mut a = self.pkb[p.0].to_vec();
        a.extend_from_slice(&self.msgs[p.1]);
        a
    }

    fn key_hash(&self, p: Pair) -> Vec<u8> {
        crate::sx::sha256(&[&self.pkb[p.0], &self.msgs[p.1]])
    }

    /// the G2 point "sum of the individual signatures of `bag`" (+ the off-subgroup point)
    fn sig_bytes(&self, wf: bool, bag: &[Pair]) -> [u8; 96] {
        let mut acc = blst_p2::default();
        for p in bag {
            let s = self.sig1.get(p).expect("signature bag uses a real key");
            unsafe { blst_p2_add_or_double_affine(&mut acc, &acc, s) };
        }
        if !wf {
            unsafe { blst_p2_add_or_double_affine(&mut acc, &acc, &self.off) };
        }
        let mut out = [0u8; 96];
        unsafe { blst_p2_compress(out.as_mut_ptr(), &acc) };
        let ok = unsafe { blst_p2_is_inf(&acc) || blst_p2_in_g2(&acc) };
        assert!(ok == wf, "well-formedness of the constructed signature");
        out
    }

    fn sig(&self, wf: bool, bag: &[Pair]) -> Signature {
        Signature::from_bytes_unchecked(&self.sig_bytes(wf, bag)).expect("signature bytes")
    }

    /// the pairing a truthful caller of BlsCache::update supplies
    fn gt(&self, p: Pair) -> GTElement {
        hash_to_g2(&self.aug(p)).pair(&self.pks[p.0])
    }

    /// independent oracle: blst's own aggregate verification (core verification, augmented messages)
    fn oracle(&self, pairs: &[Pair], wf: bool, bag: &[Pair]) -> &'static str {
        if pairs.is_empty() {
            return "na";
        }
        let Ok(sig) = min_pk::Signature::from_bytes(&self.sig_bytes(wf, bag)) else {
            return "F";
        };
        let mut pks = Vec::new();
        for p in pairs {
            match min_pk::PublicKey::from_bytes(&self.pkb[p.0]) {
                Ok(k) => pks.push(k),
                Err(_) => return "F",
            }
        }
        let augs: Vec<Vec<u8>> = pairs.iter().map(|p| self.aug(*p)).collect();
        let mrefs: Vec<&[u8]> = augs.iter().map(|a| a.as_slice()).collect();
        let prefs: Vec<&min_pk::PublicKey> = pks.iter().collect();
        if sig.aggregate_verify(true, &mrefs, DST, &prefs, true) == BLST_ERROR::BLST_SUCCESS { "T" } else { "F" }
    }

    fn tables(&self) -> (Value, Value) {
        (
            Value::Array(self.pkb.iter().map(|b| jbytes(b)).collect()),
            Value::Array(self.msgs.iter().map(|b| jbytes(b)).collect()),
        )
    }
}

fn jpair(p: &Pair) -> Value {
    json!([p.0, p.1])
}
fn jpairs(ps: &[Pair]) -> Value {
    Value::Array(ps.iter().map(jpair).collect())
}
fn pairs_of(v: &Value) -> Vec<Pair> {
    v.as_array()
        .map(|a| a.iter().map(|p| (p[0].as_u64().unwrap_or(0) as usize, p[1].as_u64().unwrap_or(0) as usize)).collect())
        .unwrap_or_default()
}
fn vstr(r: &Result<bool, String>) -> Value {
    match r {
        Ok(true) => json!("T"),
        Ok(false) => json!("F"),
        Err(m) => json!(format!("panic:{m}")),
    }
}

// ---------------------------------------------------------------------------------------
// baton scheduler (the callback is a plain fn, so the state is static)

#[derive(Clone, Copy, PartialEq, Debug)]
enum St {
    NotStarted,
    Running,
    Parked(u32),
    Finished,
}

struct Sched {
    turn: Option<usize>,
    st: Vec<St>,
    arrivals: Vec<u32>, // number of arrivals at site 1 = index of the pair being processed
    results: Vec<Option<Result<bool, String>>>,
}

static SCHED: Mutex<Sched> = Mutex::new(Sched { turn: None, st: Vec::new(), arrivals: Vec::new(), results: Vec::new() });
static CV: Condvar = Condvar::new();
thread_local! {
    static TID: Cell<Option<usize>> = const { Cell::new(None) };
}
const HANG: Duration = Duration::from_secs(30);

fn yield_cb(site: u32) {
    let Some(t) = TID.with(|c| c.get()) else {
        return; // not a scheduled thread (the controller itself: environment operations, probes)
    };
    let mut g = SCHED.lock().expect("sched");
    g.st[t] = St::Parked(site);
    if site == 1 {
        g.arrivals[t] += 1;
    }
    CV.notify_all();
    while g.turn != Some(t) {
        g = CV.wait(g).expect("sched");
    }
    g.turn = None;
    g.st[t] = St::Running;
}

struct Hang;

/// let thread t run to its next yield point (or to completion); returns its new state
fn release(t: usize) -> Result<St, Hang> {
    let mut g = SCHED.lock().expect("sched");
    assert!(matches!(g.st[t], St::Parked(_)), "release of a thread that is not parked");
    g.turn = Some(t);
    CV.notify_all();
    while g.turn.is_some() || g.st[t] == St::Running {
        let (g2, to) = CV.wait_timeout(g, HANG).expect("sched");
        g = g2;
        if to.timed_out() {
            return Err(Hang);
        }
    }
    Ok(g.st[t])
}

// ---------------------------------------------------------------------------------------
// histories

#[derive(Clone)]
struct CallSpec {
    pairs: Vec<Pair>,
    wf: bool,
    bag: Vec<Pair>,
}
#[derive(Clone)]
struct EnvOp {
    evict: bool,
    pairs: Vec<Pair>,
}
struct Hist {
    cap: usize,
    prior: Vec<Pair>,
    calls: Vec<CallSpec>,
    env: Vec<EnvOp>,
    sched: Option<Vec<usize>>, // 1-based: thread id, or number of threads + env index; None = seeded random
    case: i64,
    choice: Vec<usize>, // which signature of the case's menu was taken (1-based), per thread
}

fn observe(cache: &BlsCache) -> (Value, Value) {
    match catch(AssertUnwindSafe(|| (cache.len(), cache.verif_keys()))) {
        Ok((n, keys)) => (json!(n), Value::Array(keys.iter().map(|k| jbytes(k)).collect())),
        Err(m) => (json!(-1), json!([jbytes(m.as_bytes())])),
    }
}

fn next_of(st: St) -> u32 {
    match st {
        St::Parked(s) => s,
        _ => 0,
    }
}

fn run_history(w: &Arc<World>, h: &Hist, r: &mut StdRng, out: &mut Out) -> Result<(), Hang> {
    let cache = Arc::new(BlsCache::new(NonZeroUsize::new(h.cap).expect("capacity")));
    for p in &h.prior {
        cache.update(&w.aug(*p), w.gt(*p));
    }
    let n = h.calls.len();
    {
        let mut g = SCHED.lock().expect("sched");
        g.turn = None;
        g.st = vec![St::NotStarted; n];
        g.arrivals = vec![0; n];
        g.results = vec![None; n];
    }
    let mut handles = Vec::new();
    for (t, c) in h.calls.iter().enumerate() {
        let w = w.clone();
        let cache = cache.clone();
        let c = c.clone();
        handles.push(std::thread::spawn(move || {
            QUIET.with(|q| q.set(true));
            TID.with(|x| x.set(Some(t)));
            yield_cb(0); // wait for the first release
            let sig = w.sig(c.wf, &c.bag);
            let res = std::panic::catch_unwind(AssertUnwindSafe(|| {
                cache.aggregate_verify(c.pairs.iter().map(|p| (&w.pks[p.0], w.msgs[p.1].as_slice())), &sig)
            }))
            .map_err(|e| {
                if let Some(s) = e.downcast_ref::<String>() { s.clone() } else if let Some(s) = e.downcast_ref::<&str>() { (*s).to_string() } else { "panic".to_string() }
            });
            let mut g = SCHED.lock().expect("sched");
            g.results[t] = Some(res);
            g.st[t] = St::Finished;
            CV.notify_all();
        }));
    }
    {
        let mut g = SCHED.lock().expect("sched");
        while g.st.iter().any(|s| *s == St::NotStarted) {
            g = CV.wait(g).expect("sched");
        }
    }
    let result_of = |t: usize| -> Value {
        let g = SCHED.lock().expect("sched");
        match &g.results[t] {
            Some(r) => vstr(r),
            None => json!("none"),
        }
    };
    let arrivals_of = |t: usize| -> u32 { SCHED.lock().expect("sched").arrivals[t] };
    // start phase: every thread runs its lock-free prefix up to the first lookup (or to its end)
    let mut state = vec![St::NotStarted; n];
    let mut start = Vec::new();
    for t in 0..n {
        state[t] = release(t)?;
        start.push(json!({"next": next_of(state[t]), "verdict": result_of(t)}));
    }
    let (pk, msg) = w.tables();
    let (len, keys) = observe(&cache);
    out.emit(&json!({
        "k": "init", "case": h.case, "cap": h.cap, "pk": pk, "msg": msg, "prior": jpairs(&h.prior),
        "calls": Value::Array(h.calls.iter().map(|c| json!({"pairs": jpairs(&c.pairs), "wf": c.wf, "sig": {"wf": c.wf, "bag": jpairs(&c.bag)}})).collect()),
        "choice": h.choice,
        "env": Value::Array(h.env.iter().map(|e| json!({"op": if e.evict { "evict" } else { "update" }, "pairs": jpairs(&e.pairs)})).collect()),
        "start": start, "len": len, "keys": keys,
    }));
    let mut envdone = vec![false; h.env.len()];
    let mut pos = 0usize;
    let mut last: Option<usize> = None;
    let mut diverged = false;
    loop {
        let runnable: Vec<usize> = (0..n).filter(|t| matches!(state[*t], St::Parked(_))).map(|t| t + 1).chain((0..h.env.len()).filter(|j| !envdone[*j]).map(|j| n + j + 1)).collect();
        if runnable.is_empty() {
            break;
        }
        let mut id = match (&h.sched, diverged) {
            (Some(s), false) if pos < s.len() => s[pos],
            (Some(_), false) => 0,
            _ => {
                // seeded random schedule; sometimes keep running the same thread
                match last {
                    Some(l) if runnable.contains(&l) && r.random_range(0..10) < 3 => l,
                    _ => runnable[r.random_range(0..runnable.len())],
                }
            }
        };
        pos += 1;
        if !runnable.contains(&id) {
            // the prescribed schedule cannot be followed (the code took another path than the
            // specification predicted): say so, then finish the history under any schedule
            out.emit(&json!({"k": "diverge", "case": h.case, "pos": pos, "id": id}));
            diverged = true;
            id = runnable[0];
        }
        last = Some(id);
        if id <= n {
            let t = id - 1;
            let site = next_of(state[t]);
            state[t] = release(t)?;
            let (len, keys) = observe(&cache);
            let fin = state[t] == St::Finished;
            let mut e = json!({"k": "step", "cap": h.cap, "t": id, "site": site, "next": next_of(state[t]), "i": arrivals_of(t), "len": len, "keys": keys,
                "verdict": if fin { result_of(t) } else { json!("none") }});
            if fin {
                let c = &h.calls[t];
                e["call"] = json!({"pairs": jpairs(&c.pairs), "sig": {"wf": c.wf, "bag": jpairs(&c.bag)}});
            }
            out.emit(&e);
        } else {
            let j = id - n - 1;
            let op = &h.env[j];
            let res = catch(AssertUnwindSafe(|| {
                if op.evict {
                    cache.evict(op.pairs.iter().map(|p| (&w.pks[p.0], w.msgs[p.1].as_slice())));
                } else {
                    cache.update(&w.aug(op.pairs[0]), w.gt(op.pairs[0]));
                }
            }));
            envdone[j] = true;
            let (len, keys) = observe(&cache);
            out.emit(&json!({"k": "env", "cap": h.cap, "j": j + 1, "len": len, "keys": keys, "panic": res.is_err()}));
        }
    }
    for hd in handles {
        let _ = hd.join();
    }
    // one probe verification per cached entry, on a clone, by the controller: a cached value
    // that is not the pairing of its own preimage makes the single-pair verification fail
    let final_keys = catch(AssertUnwindSafe(|| cache.verif_keys())).unwrap_or_default();
    let mut known: HashMap<Vec<u8>, Pair> = HashMap::new();
    for k in 0..w.pkb.len() {
        for m in 0..w.msgs.len() {
            known.insert(w.key_hash((k, m)), (k, m));
        }
    }
    let mut probes = Vec::new();
    for key in &final_keys {
        probes.push(match known.get(key.as_slice()) {
            None => json!("unknown"),
            Some(p) if p.0 == 0 => json!("skip"),
            Some(p) => {
                let res = catch(AssertUnwindSafe(|| {
                    let c2 = cache.as_ref().clone();
                    c2.aggregate_verify([(&w.pks[p.0], w.msgs[p.1].as_slice())], &w.sig(true, &[*p]))
                }));
                match res {
                    Ok(true) => json!("T"),
                    Ok(false) => json!("F"),
                    Err(m) => json!(format!("panic:{m}")),
                }
            }
        });
    }
    let (len, keys) = observe(&cache);
    out.emit(&json!({"k": "end", "cap": h.cap, "case": h.case, "probes": probes, "len": len, "keys": keys}));
    Ok(())
}

fn hist_from_case(c: &Value, idx: usize, r: &mut StdRng) -> Hist {
    let mut choice = Vec::new();
    let fixed: Vec<usize> = c.get("choice").and_then(|x| x.as_array()).map(|a| a.iter().map(|x| x.as_u64().unwrap_or(1) as usize).collect()).unwrap_or_default();
    let calls = c["calls"]
        .as_array()
        .expect("calls")
        .iter()
        .enumerate()
        .map(|(t, cl)| {
            let sigs = cl["sigs"].as_array().expect("sigs");
            // the first signature of the menu is the aggregate over the real-key pairs: take it
            // often, because only an accepting verdict can expose a wrong cached value
            let mut i = if r.random_range(0..10) < 6 { 0 } else { r.random_range(0..sigs.len()) };
            if let Some(f) = fixed.get(t) {
                i = (*f).clamp(1, sigs.len()) - 1; // a recorded failing case names its signatures
            }
            choice.push(i + 1);
            CallSpec { pairs: pairs_of(&cl["pairs"]), wf: sigs[i]["wf"].as_bool().expect("wf"), bag: pairs_of(&sigs[i]["bag"]) }
        })
        .collect();
    let env = c["env"].as_array().expect("env").iter().map(|e| EnvOp { evict: e["op"] == "evict", pairs: pairs_of(&e["pairs"]) }).collect();
    Hist {
        cap: c["cap"].as_u64().expect("cap") as usize,
        prior: pairs_of(&c["prior"]),
        calls,
        env,
        sched: Some(c["sched"].as_array().expect("sched").iter().map(|x| x.as_u64().unwrap_or(0) as usize).collect()),
        case: c.get("id").and_then(|x| x.as_i64()).unwrap_or(idx as i64),
        choice,
    }
}

static INF_PCT: std::sync::atomic::AtomicU64 = std::sync::atomic::AtomicU64::new(5);

fn rand_pair(r: &mut StdRng, hot: &[Pair], nkeys: usize, nmsgs: usize) -> Pair {
    if !hot.is_empty() && r.random_range(0..100) < 85 {
        hot[r.random_range(0..hot.len())]
    } else {
        let k = if r.random_range(0..100) < INF_PCT.load(std::sync::atomic::Ordering::Relaxed) { 0 } else { r.random_range(1..=nkeys) };
        (k, r.random_range(0..nmsgs))
    }
}

/// a signature for a pair list: mostly the aggregate over its real-key pairs, else a tampered one
fn rand_sig(r: &mut StdRng, pairs: &[Pair], nkeys: usize, nmsgs: usize) -> (bool, Vec<Pair>) {
    let real: Vec<Pair> = pairs.iter().copied().filter(|p| p.0 != 0).collect();
    let anyreal = |r: &mut StdRng| (r.random_range(1..=nkeys), r.random_range(0..nmsgs));
    let kind = r.random_range(0..100);
    let mut bag = real.clone();
    // the order of aggregation is irrelevant: shuffle
    for i in (1..bag.len()).rev() {
        bag.swap(i, r.random_range(0..=i));
    }
    if kind < 50 {
        (true, bag)
    } else if kind < 58 {
        (false, if r.random::<bool>() { bag } else { vec![] })
    } else if kind < 63 {
        (true, vec![])
    } else if bag.is_empty() {
        (true, vec![anyreal(r)])
    } else {
        let i = r.random_range(0..bag.len());
        match kind % 5 {
            0 => {
                bag.remove(i);
            }
            1 => {
                let p = bag[i];
                bag.push(p);
            }
            2 => {
                let p = anyreal(r);
                bag.push(p);
            }
            3 => bag[i].1 = (bag[i].1 + 1 + r.random_range(0..nmsgs - 1)) % nmsgs,
            _ => bag[i].0 = 1 + (bag[i].0 + r.random_range(0..nkeys - 1)) % nkeys,
        }
        (true, bag)
    }
}

fn rand_hist(r: &mut StdRng, nkeys: usize, nmsgs: usize, case: i64) -> Hist {
    let cap = r.random_range(1..=4);
    let nhot = r.random_range(2..=5);
    let mut hot: Vec<Pair> = Vec::new();
    while hot.len() < nhot {
        let p = rand_pair(r, &[], nkeys, nmsgs);
        if !hot.contains(&p) {
            hot.push(p);
        }
    }
    let mut prior: Vec<Pair> = Vec::new();
    for _ in 0..r.random_range(0..=cap) {
        let p = rand_pair(r, &hot, nkeys, nmsgs);
        if !prior.contains(&p) {
            prior.push(p);
        }
    }
    let calls = (0..r.random_range(2..=4))
        .map(|_| {
            let pairs: Vec<Pair> = (0..r.random_range(0..=5)).map(|_| rand_pair(r, &hot, nkeys, nmsgs)).collect();
            let (wf, bag) = rand_sig(r, &pairs, nkeys, nmsgs);
            CallSpec { pairs, wf, bag }
        })
        .collect();
    let env = (0..r.random_range(0..=3))
        .map(|_| {
            if r.random::<bool>() {
                EnvOp { evict: true, pairs: (0..r.random_range(1..=3)).map(|_| rand_pair(r, &hot, nkeys, nmsgs)).collect() }
            } else {
                EnvOp { evict: false, pairs: vec![rand_pair(r, &hot, nkeys, nmsgs)] }
            }
        })
        .collect();
    Hist { cap, prior, calls, env, sched: None, case, choice: vec![] }
}

// ---------------------------------------------------------------------------------------
// sequential agreement

fn clvm_path(w: &World, pairs: &[Pair], sig: &Signature, r: &mut StdRng) -> Value {
    use chia_consensus::consensus_constants::TEST_CONSTANTS;
    use chia_consensus::flags::ConsensusFlags;
    use chia_consensus::spendbundle_validation::validate_clvm_and_signature;
    use chia_consensus::validation_error::{ErrorCode, ValidationErr};
    use chia_protocol::{Bytes32, Coin, CoinSpend, Program, SpendBundle};
    use clvmr::serde::node_to_bytes;
    use clvmr::Allocator;
    // puzzle (q . ((AGG_SIG_UNSAFE pk msg) ...)), solution ()
    let mut a = Allocator::new();
    let mut conds = a.nil();
    for p in pairs.iter().rev() {
        let op = a.new_small_number(49).expect("atom");
        let pk = a.new_atom(&w.pkb[p.0]).expect("atom");
        let msg = a.new_atom(&w.msgs[p.1]).expect("atom");
        let t0 = a.nil();
        let t1 = a.new_pair(msg, t0).expect("pair");
        let t2 = a.new_pair(pk, t1).expect("pair");
        let c = a.new_pair(op, t2).expect("pair");
        conds = a.new_pair(c, conds).expect("pair");
    }
    let q = a.new_small_number(1).expect("atom");
    let puzzle = a.new_pair(q, conds).expect("pair");
    let ph = clvm_utils::tree_hash(&a, puzzle);
    let parent = rand_bytes(r, 32);
    let coin = Coin::new(Bytes32::try_from(parent.as_slice()).unwrap(), Bytes32::from(ph.to_bytes()), 1);
    let cs = CoinSpend::new(coin, Program::from(node_to_bytes(&a, puzzle).expect("ser")), Program::from(vec![0x80u8]));
    let sb = SpendBundle::new(vec![cs], sig.clone());
    match catch(AssertUnwindSafe(|| validate_clvm_and_signature(&sb, 11_000_000_000, &TEST_CONSTANTS, ConsensusFlags::empty()))) {
        Err(m) => json!(format!("panic:{m}")),
        Ok(Ok(_)) => json!("T"),
        Ok(Err(ValidationErr::Err(ErrorCode::BadAggregateSignature))) => json!("F"),
        Ok(Err(e)) => json!(format!("E:{e:?}")),
    }
}

fn run_seq(w: &World, pairs: &[Pair], wf: bool, bag: &[Pair], case: i64, r: &mut StdRng) -> Value {
    let sig = w.sig(wf, bag);
    let data = || pairs.iter().map(|p| (&w.pks[p.0], w.msgs[p.1].as_slice()));
    let v_verify = if pairs.len() == 1 {
        vstr(&catch(AssertUnwindSafe(|| verify(&sig, &w.pks[pairs[0].0], w.msgs[pairs[0].1].as_slice()))))
    } else {
        json!("na")
    };
    let v_agg = vstr(&catch(AssertUnwindSafe(|| aggregate_verify(&sig, data()))));
    let cap = r.random_range(1..=pairs.len() + 1);
    let cache = BlsCache::new(NonZeroUsize::new(cap).expect("cap"));
    let v_cache = vstr(&catch(AssertUnwindSafe(|| cache.aggregate_verify(data(), &sig))));
    let len1 = catch(AssertUnwindSafe(|| cache.len())).map(|n| n as i64).unwrap_or(-1);
    let v_cache2 = vstr(&catch(AssertUnwindSafe(|| cache.aggregate_verify(data(), &sig))));
    let len2 = catch(AssertUnwindSafe(|| cache.len())).map(|n| n as i64).unwrap_or(-1);
    let v_gt = vstr(&catch(AssertUnwindSafe(|| {
        let gts: Vec<GTElement> = pairs.iter().map(|p| w.gt(*p)).collect();
        aggregate_verify_gt(&sig, gts.iter())
    })));
    // the conditions parser of validate_clvm_and_signature refuses an infinity key and an
    // oversized list on its own account; the path is only compared where it is not exempt
    let v_clvm = clvm_path(w, pairs, &sig, r);
    json!({
        "k": "seq", "case": case, "pairs": jpairs(pairs), "sig": {"wf": wf, "bag": jpairs(bag)}, "cap": cap, "len1": len1, "len2": len2,
        "v": {"verify": v_verify, "agg": v_agg, "cache": v_cache, "cache2": v_cache2, "gt": v_gt, "clvm": v_clvm, "blst": w.oracle(pairs, wf, bag)},
    })
}

pub fn record(args: &Args) {
    let seed = args.u64("seed", 1);
    let mut r = rng(seed ^ 0xC15C15);
    let nkeys = args.u64("keys", 4) as usize;
    let nmsgs = args.u64("msgs", 4) as usize;
    INF_PCT.store(args.u64("inf", 5), std::sync::atomic::Ordering::Relaxed); // share of infinity keys in random pairs (percent)
    let w = Arc::new(World::new(&mut r, nkeys.max(2), nmsgs.max(3)));
    chia_bls::verif_hooks::set_yield_callback(Some(yield_cb));
    let mut out = Out::create(args.req("out"));
    let mut hang = false;
    if let Some(path) = args.get("cases") {
        for (i, c) in read_ndjson(path).iter().enumerate() {
            if c["k"] == "seq" {
                let e = run_seq(&w, &pairs_of(&c["pairs"]), c["sig"]["wf"].as_bool().expect("wf"), &pairs_of(&c["sig"]["bag"]), c.get("id").and_then(|x| x.as_i64()).unwrap_or(i as i64), &mut r);
                out.emit(&e);
            } else {
                let h = hist_from_case(c, i, &mut r);
                if run_history(&w, &h, &mut r, &mut out).is_err() {
                    hang = true;
                    break;
                }
            }
        }
    }
    if !hang {
        for i in 0..args.u64("random-conc", 0) {
            let h = rand_hist(&mut r, nkeys.max(2), nmsgs.max(3), -1 - i as i64);
            if run_history(&w, &h, &mut r, &mut out).is_err() {
                hang = true;
                break;
            }
        }
    }
    if !hang {
        for i in 0..args.u64("random-seq", 0) {
            let n = r.random_range(0..=6);
            let pairs: Vec<Pair> = (0..n).map(|_| rand_pair(&mut r, &[], nkeys.max(2), nmsgs.max(3))).collect();
            let (wf, bag) = rand_sig(&mut r, &pairs, nkeys.max(2), nmsgs.max(3));
            let e = run_seq(&w, &pairs, wf, &bag, -1 - i as i64, &mut r);
            out.emit(&e);
        }
    }
    if hang {
        // a scheduled thread neither reached its next yield point nor finished: it blocks
        // while another thread is parked, i.e. a lock is held across a yield point
        out.emit(&json!({"k": "hang"}));
    }
    let n = out.finish();
    eprintln!("blscache: {n} events");
    if hang {
        std::process::exit(0); // parked threads cannot be joined
    }
}
