//! Model S-expressions (independent of the Allocator) + conversions.
use crate::util::*;
use clvmr::allocator::{Allocator, NodePtr, SExp};
use serde_json::{json, Value};

#[derive(Clone, Debug, PartialEq, Eq, Hash)]
pub enum Sx {
    A(Vec<u8>),
    P(Box<Sx>, Box<Sx>),
}

impl Sx {
    pub fn nil() -> Sx {
        Sx::A(vec![])
    }
    pub fn atom(b: &[u8]) -> Sx {
        Sx::A(b.to_vec())
    }
    pub fn cons(l: Sx, r: Sx) -> Sx {
        Sx::P(Box::new(l), Box::new(r))
    }
    pub fn list(items: Vec<Sx>) -> Sx {
        Sx::list_tail(items, Sx::nil())
    }
    pub fn list_tail(items: Vec<Sx>, tail: Sx) -> Sx {
        let mut r = tail;
        for i in items.into_iter().rev() {
            r = Sx::cons(i, r);
        }
        r
    }
    /// canonical CLVM encoding of a non-negative integer
    pub fn uint(v: u128) -> Sx {
        Sx::A(enc_uint(v))
    }
    pub fn to_json(&self) -> Value {
        // iterative on the right spine to keep recursion shallow for long lists
        let mut items = Vec::new();
        let mut cur = self;
        loop {
            match cur {
                Sx::A(b) => {
                    let mut v = json!({"a": jbytes(b)});
                    for l in items.into_iter().rev() {
                        v = json!({"l": l, "r": v});
                    }
                    return v;
                }
                Sx::P(l, r) => {
                    items.push(l.to_json());
                    cur = r;
                }
            }
        }
    }
    /// flat form for traces: {"a":[..]} | {"s":[items..], "t": terminator}; the right spine of a list is
    /// one JSON array (the TLA+ Json module refuses nesting deeper than 255)
    pub fn to_jsonf(&self) -> Value {
        match self {
            Sx::A(b) => json!({"a": jbytes(b)}),
            Sx::P(..) => {
                let mut items = Vec::new();
                let mut cur = self;
                while let Sx::P(l, r) = cur {
                    items.push(l.to_jsonf());
                    cur = r;
                }
                json!({"s": items, "t": cur.to_jsonf()})
            }
        }
    }
    pub fn from_json(v: &Value) -> Sx {
        if let Some(a) = v.get("a") {
            Sx::A(from_jbytes(a))
        } else if let Some(s) = v.get("s") {
            let items: Vec<Sx> = s.as_array().map(|x| x.iter().map(Sx::from_json).collect()).unwrap_or_default();
            Sx::list_tail(items, Sx::from_json(&v["t"]))
        } else {
            Sx::cons(Sx::from_json(&v["l"]), Sx::from_json(&v["r"]))
        }
    }
    pub fn to_node(&self, a: &mut Allocator) -> NodePtr {
        let mut items = Vec::new();
        let mut cur = self;
        loop {
            match cur {
                Sx::A(b) => {
                    let mut n = a.new_atom(b).expect("new_atom");
                    for l in items.into_iter().rev() {
                        n = a.new_pair(l, n).expect("new_pair");
                    }
                    return n;
                }
                Sx::P(l, r) => {
                    items.push(l.to_node(a));
                    cur = r;
                }
            }
        }
    }
    pub fn from_node(a: &Allocator, n: NodePtr) -> Sx {
        let mut items = Vec::new();
        let mut cur = n;
        loop {
            match a.sexp(cur) {
                SExp::Atom => {
                    let mut v = Sx::A(a.atom(cur).as_ref().to_vec());
                    for l in items.into_iter().rev() {
                        v = Sx::cons(l, v);
                    }
                    return v;
                }
                SExp::Pair(l, r) => {
                    items.push(Sx::from_node(a, l));
                    cur = r;
                }
            }
        }
    }
    pub fn is_atom(&self) -> bool {
        matches!(self, Sx::A(_))
    }
}

pub fn enc_uint(v: u128) -> Vec<u8> {
    let b = v.to_be_bytes();
    let s = b.iter().position(|x| *x != 0).unwrap_or(16);
    let mut out = b[s..].to_vec();
    if !out.is_empty() && out[0] & 0x80 != 0 {
        out.insert(0, 0);
    }
    out
}

pub fn sha256(parts: &[&[u8]]) -> Vec<u8> {
    use sha2::{Digest, Sha256};
    let mut h = Sha256::new();
    for p in parts {
        h.update(p);
    }
    h.finalize().to_vec()
}
