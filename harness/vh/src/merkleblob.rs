//! C18: histories of public MerkleBlob calls, with the abstract state projected after every call.
//!
//! Two drivers write the same event stream:
//!  * `--cases <ndjson>`: the prefix-closed set of histories emitted by TLC (MC_MerkleBlob) is
//!    replayed as a trie, depth first; every trie edge is one call on a clone of the parent
//!    node's blob (`op` event) and leaving the edge is a `pop` event;
//!  * seeded random histories (`--hist N --len L --keys K --hashes H [--wide 1]`), separated by
//!    `reset` events.
//! Event `op`: the call, its result, and what the public API shows afterwards: the tree walked
//! from index 0 (keys, values, hashes, dirty bits, parent links), get_keys_values,
//! check_integrity, reload equivalence (MerkleBlob::new(read_blob().clone())), and - on a clone
//! on which calculate_lazy_hashes was called - the root hash and inclusion proofs.
//! Nothing here decides whether the property holds: Trace_MerkleBlob.tla does.
use crate::sx::sha256;
use crate::util::*;
use chia_datalayer::{
    try_get_block, Hash, InsertLocation, KeyId, MerkleBlob, Node, Side, TreeIndex, ValueId,
};
use chia_protocol::Bytes32;
use rand::rngs::StdRng;
use rand::Rng;
use serde_json::{json, Map, Value};
use std::collections::{BTreeMap, HashSet};
use std::panic::AssertUnwindSafe;

type H32 = [u8; 32];

#[derive(Clone, Debug)]
enum Loc {
    Auto,
    Root,
    Index0(u8),
    Freed(u8),
    Leaf(i64, u8),
}

#[derive(Clone, Debug)]
enum Op {
    Insert(i64, i64, H32, Loc),
    Upsert(i64, i64, H32),
    Delete(i64),
    Batch(Vec<(i64, i64, H32)>),
    Calc,
    Reload,
}

fn ks(k: i64) -> Value {
    json!(k.to_string())
}

fn parse_i64(v: &Value) -> i64 {
    v.as_str().and_then(|s| s.parse().ok()).expect("decimal string")
}

/// hashes of TLC cases are symbolic 1-tuples like ["a"]; concretise deterministically
fn conc_hash(v: &Value) -> H32 {
    let a = v.as_array().expect("hash");
    if a.len() == 32 {
        let b = from_jbytes(v);
        return b.try_into().unwrap();
    }
    let id = a[0].as_str().expect("symbolic hash id");
    sha256(&[b"verif-leaf-hash:", id.as_bytes()]).try_into().unwrap()
}

fn op_from_json(v: &Value) -> Op {
    let item = |x: &Value| (parse_i64(&x["key"]), parse_i64(&x["val"]), conc_hash(&x["h"]));
    match v["k"].as_str().unwrap() {
        "insert" => {
            let (k, val, h) = item(v);
            let l = &v["loc"];
            let side = l["side"].as_u64().unwrap_or(0) as u8;
            let loc = match l["k"].as_str().unwrap() {
                "auto" => Loc::Auto,
                "root" => Loc::Root,
                "index0" => Loc::Index0(side),
                "freed" => Loc::Freed(side),
                "leaf" => Loc::Leaf(parse_i64(&l["key"]), side),
                x => panic!("loc {x}"),
            };
            Op::Insert(k, val, h, loc)
        }
        "upsert" => {
            let (k, val, h) = item(v);
            Op::Upsert(k, val, h)
        }
        "delete" => Op::Delete(parse_i64(&v["key"])),
        "batch" => Op::Batch(v["items"].as_array().unwrap().iter().map(item).collect()),
        "calc" => Op::Calc,
        "reload" => Op::Reload,
        x => panic!("op {x}"),
    }
}

fn op_to_json(op: &Op) -> Value {
    match op {
        Op::Insert(k, v, h, loc) => {
            let l = match loc {
                Loc::Auto => json!({"k": "auto"}),
                Loc::Root => json!({"k": "root"}),
                Loc::Index0(s) => json!({"k": "index0", "side": s}),
                Loc::Freed(s) => json!({"k": "freed", "side": s}),
                Loc::Leaf(key, s) => json!({"k": "leaf", "key": ks(*key), "side": s}),
            };
            json!({"k": "insert", "key": ks(*k), "val": ks(*v), "h": jbytes(h), "loc": l})
        }
        Op::Upsert(k, v, h) => json!({"k": "upsert", "key": ks(*k), "val": ks(*v), "h": jbytes(h)}),
        Op::Delete(k) => json!({"k": "delete", "key": ks(*k)}),
        Op::Batch(items) => json!({"k": "batch", "items": items.iter().map(|(k, v, h)| json!({"key": ks(*k), "val": ks(*v), "h": jbytes(h)})).collect::<Vec<_>>()}),
        Op::Calc => json!({"k": "calc"}),
        Op::Reload => json!({"k": "reload"}),
    }
}

fn hash_of(h: &H32) -> Hash {
    Hash(Bytes32::new(*h))
}

fn side_of(s: u8) -> Side {
    if s == 0 { Side::Left } else { Side::Right }
}

fn short(s: String) -> String {
    s.chars().take(120).collect()
}

/// result of a fallible call that may also panic
fn res_json<T>(r: Result<Result<T, chia_datalayer::Error>, String>) -> (Value, Option<T>) {
    match r {
        Ok(Ok(v)) => (json!({"k": "ok"}), Some(v)),
        Ok(Err(e)) => (json!({"k": "err", "e": short(format!("{e:?}"))}), None),
        Err(p) => (json!({"k": "panic", "e": short(p)}), None),
    }
}

fn new_blob(bytes: Vec<u8>) -> Result<MerkleBlob, chia_datalayer::Error> {
    let mut b = MerkleBlob::new(bytes)?;
    b.check_integrity_on_drop = false;
    Ok(b)
}

/// the abstract tree as the public API shows it; `pok` is cleared when a parent link disagrees
fn walk(blob: &MerkleBlob, idx: TreeIndex, parent: Option<TreeIndex>, depth: usize, seen: &mut HashSet<u32>, pok: &mut bool) -> Value {
    if depth > 200 || !seen.insert(idx.0) {
        return json!({"t": "X", "e": "cycle or too deep"});
    }
    let node = match catch(AssertUnwindSafe(|| blob.get_node(idx))) {
        Ok(Ok(n)) => n,
        Ok(Err(e)) => return json!({"t": "X", "e": short(format!("{e:?}"))}),
        Err(p) => return json!({"t": "X", "e": short(p)}),
    };
    let dirty = match try_get_block(blob.read_blob(), idx) {
        Ok(b) => b.metadata.dirty,
        Err(e) => return json!({"t": "X", "e": short(format!("{e:?}"))}),
    };
    if node.parent().0 != parent {
        *pok = false;
    }
    match node {
        Node::Leaf(l) => {
            if dirty {
                return json!({"t": "X", "e": "dirty leaf"});
            }
            json!({"t": "L", "k": ks(l.key.0), "v": ks(l.value.0), "h": jbytes(l.hash.0.as_ref())})
        }
        Node::Internal(n) => {
            let l = walk(blob, n.left, Some(idx), depth + 1, seen, pok);
            let r = walk(blob, n.right, Some(idx), depth + 1, seen, pok);
            json!({"t": "N", "l": l, "r": r, "h": jbytes(n.hash.0.as_ref()), "d": dirty})
        }
    }
}

fn collect_indexes(blob: &MerkleBlob, idx: TreeIndex, seen: &mut HashSet<u32>) {
    if !seen.insert(idx.0) || seen.len() > 100_000 {
        return;
    }
    if let Ok(Ok(Node::Internal(n))) = catch(AssertUnwindSafe(|| blob.get_node(idx))) {
        collect_indexes(blob, n.left, seen);
        collect_indexes(blob, n.right, seen);
    }
}

/// the smallest block index that is not part of the tree (a freed block), else the first index beyond the blob
fn first_unused_index(blob: &MerkleBlob) -> TreeIndex {
    let blocks = (blob.read_blob().len() / chia_datalayer::BLOCK_SIZE) as u32;
    let mut seen = HashSet::new();
    if blocks > 0 {
        collect_indexes(blob, TreeIndex(0), &mut seen);
    }
    TreeIndex((0..blocks).find(|i| !seen.contains(i)).unwrap_or(blocks))
}

fn project(blob: &MerkleBlob) -> (Value, bool) {
    if blob.read_blob().is_empty() {
        return (json!({"t": "E"}), true);
    }
    let mut pok = true;
    let t = walk(blob, TreeIndex(0), None, 0, &mut HashSet::new(), &mut pok);
    (t, pok)
}

fn leaves_of(t: &Value, out: &mut Vec<(String, Vec<u8>)>) {
    match t["t"].as_str() {
        Some("L") => out.push((t["k"].as_str().unwrap().to_string(), from_jbytes(&t["h"]))),
        Some("N") => {
            leaves_of(&t["l"], out);
            leaves_of(&t["r"], out);
        }
        _ => {}
    }
}

fn kv_json(blob: &MerkleBlob) -> Value {
    match catch(AssertUnwindSafe(|| blob.get_keys_values())) {
        Ok(Ok(m)) => {
            let s: BTreeMap<i64, i64> = m.iter().map(|(k, v)| (k.0, v.0)).collect();
            json!({"k": "ok", "kv": s.iter().map(|(k, v)| json!([ks(*k), ks(*v)])).collect::<Vec<_>>()})
        }
        Ok(Err(e)) => json!({"k": "err", "e": short(format!("{e:?}"))}),
        Err(p) => json!({"k": "panic", "e": short(p)}),
    }
}

/// on a clone: calculate_lazy_hashes, then the root hash and inclusion proofs
fn lazy_json(blob: &MerkleBlob, proof_keys: &[i64], all_keys: &[i64]) -> Value {
    let mut c = blob.clone();
    c.check_integrity_on_drop = false;
    let (r, ok) = res_json(catch(AssertUnwindSafe(|| c.calculate_lazy_hashes())));
    if ok.is_none() {
        return json!({"k": "calcfail", "res": r});
    }
    let root = match catch(AssertUnwindSafe(|| c.get_hash_at_index(TreeIndex(0)))) {
        Ok(Ok(None)) => json!([]),
        Ok(Ok(Some(h))) => json!([jbytes(h.0.as_ref())]),
        Ok(Err(e)) => return json!({"k": "rootfail", "e": short(format!("{e:?}"))}),
        Err(p) => return json!({"k": "rootfail", "e": short(p)}),
    };
    // every key: the code's own verdict on its own proof, and whether it ends in the root
    let mut all_valid = true;
    let mut all_end_in_root = true;
    let mut proofs = Vec::new();
    for k in all_keys {
        match catch(AssertUnwindSafe(|| c.get_proof_of_inclusion(KeyId(*k)))) {
            Ok(Ok(p)) => {
                if !p.valid() {
                    all_valid = false;
                }
                if json!([jbytes(p.root_hash().0.as_ref())]) != root {
                    all_end_in_root = false;
                }
                if proof_keys.contains(k) {
                    let layers: Vec<Value> = p
                        .layers
                        .iter()
                        .map(|l| json!({"s": l.other_hash_side as u8, "o": jbytes(l.other_hash.0.as_ref()), "c": jbytes(l.combined_hash.0.as_ref())}))
                        .collect();
                    proofs.push(json!({"key": ks(*k), "node": jbytes(p.node_hash.0.as_ref()), "layers": layers}));
                }
            }
            Ok(Err(e)) => return json!({"k": "prooffail", "key": ks(*k), "e": short(format!("{e:?}"))}),
            Err(p) => return json!({"k": "prooffail", "key": ks(*k), "e": short(p)}),
        }
    }
    json!({"k": "ok", "root": root, "proofs": proofs, "all_valid": all_valid, "all_end_in_root": all_end_in_root, "nproved": all_keys.len()})
}

struct Obs {
    ev: Value,
    healthy: bool,
}

/// apply one call to `blob` and observe. Returns None if the call cannot be expressed
/// (an insert location that names a key the blob does not hold).
fn apply(blob: &mut MerkleBlob, op: &Op, r: &mut StdRng, max_proofs: usize, push: bool) -> Option<Obs> {
    // what the API showed before the call (only used to label the event)
    let (pre_tree, _) = project(blob);
    let mut pre = Vec::new();
    leaves_of(&pre_tree, &mut pre);
    let pre_keys: HashSet<String> = pre.iter().map(|x| x.0.clone()).collect();
    let pre_hashes: HashSet<Vec<u8>> = pre.iter().map(|x| x.1.clone()).collect();
    let classify = |k: i64, h: &H32, own_ok: bool| -> (bool, bool) {
        let dk = pre_keys.contains(&k.to_string()) && !own_ok;
        // an upsert may keep its own hash
        let own = own_ok && pre.iter().any(|x| x.0 == k.to_string() && x.1 == h.to_vec());
        let dh = pre_hashes.contains(&h.to_vec()) && !own;
        (dk, dh)
    };
    let (mut dup_key, mut dup_hash) = (false, false);
    match op {
        Op::Insert(k, _, h, _) => (dup_key, dup_hash) = classify(*k, h, false),
        Op::Upsert(k, _, h) => (dup_key, dup_hash) = classify(*k, h, true),
        Op::Batch(items) => {
            for (i, (k, _, h)) in items.iter().enumerate() {
                let (dk, dh) = classify(*k, h, false);
                dup_key |= dk || items[..i].iter().any(|x| x.0 == *k);
                dup_hash |= dh || items[..i].iter().any(|x| x.2 == *h);
            }
        }
        _ => {}
    }
    let blocks_before = blob.read_blob().len() / chia_datalayer::BLOCK_SIZE;
    let res = match op {
        Op::Insert(k, v, h, loc) => {
            let il = match loc {
                Loc::Auto => InsertLocation::Auto {},
                Loc::Root => InsertLocation::AsRoot {},
                Loc::Index0(s) => InsertLocation::Leaf { index: TreeIndex(0), side: side_of(*s) },
                Loc::Freed(s) => InsertLocation::Leaf { index: first_unused_index(blob), side: side_of(*s) },
                Loc::Leaf(key, s) => match blob.get_key_index(KeyId(*key)) {
                    Ok(index) => InsertLocation::Leaf { index, side: side_of(*s) },
                    Err(_) => return None,
                },
            };
            res_json(catch(AssertUnwindSafe(|| blob.insert(KeyId(*k), ValueId(*v), &hash_of(h), il).map(|_| ())))).0
        }
        Op::Upsert(k, v, h) => res_json(catch(AssertUnwindSafe(|| blob.upsert(KeyId(*k), ValueId(*v), &hash_of(h))))).0,
        Op::Delete(k) => res_json(catch(AssertUnwindSafe(|| blob.delete(KeyId(*k))))).0,
        Op::Batch(items) => {
            let v: Vec<((KeyId, ValueId), Hash)> = items.iter().map(|(k, v, h)| ((KeyId(*k), ValueId(*v)), hash_of(h))).collect();
            res_json(catch(AssertUnwindSafe(|| blob.batch_insert(v)))).0
        }
        Op::Calc => res_json(catch(AssertUnwindSafe(|| blob.calculate_lazy_hashes()))).0,
        Op::Reload => {
            let bytes = blob.read_blob().clone();
            let (j, b) = res_json(catch(AssertUnwindSafe(|| new_blob(bytes))));
            if let Some(b) = b {
                *blob = b;
            }
            j
        }
    };
    let (tree, pok) = project(blob);
    let kv = kv_json(blob);
    let integrity = res_json(catch(AssertUnwindSafe(|| blob.check_integrity()))).0;
    // reload equivalence
    let bytes = blob.read_blob().clone();
    let reload = match catch(AssertUnwindSafe(|| new_blob(bytes))) {
        Ok(Ok(b2)) => {
            let (t2, pok2) = project(&b2);
            let i2 = res_json(catch(AssertUnwindSafe(|| b2.check_integrity()))).0;
            json!({"k": "ok", "same": t2 == tree && pok2 == pok && kv_json(&b2) == kv, "integrity": i2})
        }
        Ok(Err(e)) => json!({"k": "err", "e": short(format!("{e:?}"))}),
        Err(p) => json!({"k": "panic", "e": short(p)}),
    };
    let structurally_sound = !tree.to_string().contains("\"t\":\"X\"");
    let healthy = structurally_sound && pok && integrity["k"] == "ok" && reload["k"] == "ok" && res["k"] != "panic" && kv["k"] == "ok";
    let lazy = if healthy {
        let mut post = Vec::new();
        leaves_of(&tree, &mut post);
        let all: Vec<i64> = post.iter().map(|x| x.0.parse().unwrap()).collect();
        let mut pk: Vec<i64> = all.clone();
        if pk.len() > max_proofs && !matches!(op, Op::Calc) {
            // the touched key first, then a seeded sample
            let mut chosen = Vec::new();
            if let Op::Insert(k, ..) | Op::Upsert(k, ..) = op {
                if all.contains(k) {
                    chosen.push(*k);
                }
            }
            while chosen.len() < max_proofs {
                let c = all[r.random_range(0..all.len())];
                if !chosen.contains(&c) {
                    chosen.push(c);
                }
            }
            pk = chosen;
        }
        lazy_json(blob, &pk, &all)
    } else {
        json!({"k": "skipped"})
    };
    let healthy = healthy && lazy["k"] == "ok";
    let mut ev = Map::new();
    ev.insert("k".into(), json!("op"));
    ev.insert("push".into(), json!(push));
    ev.insert("op".into(), op_to_json(op));
    ev.insert("res".into(), res);
    ev.insert("tree".into(), tree);
    ev.insert("parents_ok".into(), json!(pok));
    ev.insert("kv".into(), kv);
    ev.insert("integrity".into(), integrity);
    ev.insert("reload".into(), reload);
    ev.insert("lazy".into(), lazy);
    ev.insert("meta".into(), json!({"dup_key": dup_key, "dup_hash": dup_hash, "n_before": pre.len(), "blocks_before": blocks_before, "blocks_after": blob.read_blob().len() / chia_datalayer::BLOCK_SIZE}));
    Some(Obs { ev: Value::Object(ev), healthy })
}

// ------------------------------------------------------------------ trie replay of TLC cases
#[derive(Default)]
struct Trie {
    kids: Vec<(String, Value, Trie)>,
}

impl Trie {
    fn add(&mut self, ops: &[Value]) {
        if ops.is_empty() {
            return;
        }
        let key = ops[0].to_string();
        let pos = match self.kids.iter().position(|k| k.0 == key) {
            Some(p) => p,
            None => {
                self.kids.push((key, ops[0].clone(), Trie::default()));
                self.kids.len() - 1
            }
        };
        self.kids[pos].2.add(&ops[1..]);
    }
}

struct Stats {
    ops: usize,
    unhealthy: usize,
    skipped: usize,
}

fn replay(t: &Trie, blob: &MerkleBlob, out: &mut Out, r: &mut StdRng, st: &mut Stats) {
    for (_, opj, sub) in &t.kids {
        let op = op_from_json(opj);
        let mut b = blob.clone();
        b.check_integrity_on_drop = false;
        match apply(&mut b, &op, r, 8, true) {
            None => st.skipped += 1,
            Some(o) => {
                out.emit(&o.ev);
                st.ops += 1;
                if o.healthy {
                    replay(sub, &b, out, r, st);
                } else {
                    // a broken blob is not driven further: one defect must not cascade
                    st.unhealthy += 1;
                }
                out.emit(&json!({"k": "pop"}));
            }
        }
    }
}

// ------------------------------------------------------------------ random histories
struct Gen {
    keys: Vec<i64>,
    hashes: Vec<H32>,
    wide: bool,
}

impl Gen {
    fn key(&self, r: &mut StdRng) -> i64 {
        if self.wide { r.random::<i64>() } else { self.keys[r.random_range(0..self.keys.len())] }
    }
    fn hash(&self, r: &mut StdRng) -> H32 {
        if self.wide { r.random::<H32>() } else { self.hashes[r.random_range(0..self.hashes.len())] }
    }
    fn val(&self, r: &mut StdRng) -> i64 {
        if self.wide || r.random_range(0..10) == 0 { r.random::<i64>() } else { r.random_range(0..50) }
    }
    /// a key / hash that the blob does not hold (if there is one), with probability p_fresh
    fn key_pref(&self, r: &mut StdRng, present: &[(i64, H32)], fresh: bool) -> i64 {
        for _ in 0..40 {
            let k = self.key(r);
            if present.iter().any(|x| x.0 == k) != fresh {
                return k;
            }
        }
        self.key(r)
    }
    fn hash_pref(&self, r: &mut StdRng, present: &[(i64, H32)], fresh: bool) -> H32 {
        for _ in 0..40 {
            let h = self.hash(r);
            if present.iter().any(|x| x.1 == h) != fresh {
                return h;
            }
        }
        self.hash(r)
    }
}

fn present_of(blob: &MerkleBlob) -> Vec<(i64, H32)> {
    let (t, _) = project(blob);
    let mut l = Vec::new();
    leaves_of(&t, &mut l);
    l.iter().map(|x| (x.0.parse().unwrap(), x.1.clone().try_into().unwrap())).collect()
}

fn gen_op(g: &Gen, r: &mut StdRng, present: &[(i64, H32)], drain: bool, grow: bool) -> Op {
    let n = present.len();
    let pick_present = |r: &mut StdRng| present[r.random_range(0..n)].0;
    if drain && n > 0 {
        return Op::Delete(pick_present(r));
    }
    let roll = r.random_range(0..100);
    let roll = if grow && roll >= 55 && roll < 80 { 0 } else { roll };
    match roll {
        0..=34 => {
            // mostly valid inserts; sometimes a duplicate key and/or hash
            let (fk, fh) = (r.random_range(0..10) != 0, r.random_range(0..10) != 0);
            let k = g.key_pref(r, present, fk);
            let h = g.hash_pref(r, present, fh);
            let loc = match r.random_range(0..20) {
                0..=8 => Loc::Auto,
                9..=16 if n > 0 => Loc::Leaf(pick_present(r), r.random_range(0..2)),
                17 => Loc::Root,
                18 => Loc::Index0(r.random_range(0..2)),
                19 if r.random_range(0..3) == 0 => Loc::Freed(r.random_range(0..2)),
                _ => Loc::Auto,
            };
            Op::Insert(k, g.val(r), h, loc)
        }
        35..=49 => {
            let k = if n > 0 && r.random_range(0..4) != 0 { pick_present(r) } else { g.key(r) };
            // own hash (value-only change), a fresh hash, rarely a hash held by another key
            let own = present.iter().find(|x| x.0 == k).map(|x| x.1);
            let fresh = g.hash_pref(r, present, true);
            let fresh_ok = !present.iter().any(|x| x.1 == fresh);
            let h = match r.random_range(0..30) {
                0 => g.hash_pref(r, present, false),
                1..=8 if own.is_some() => own.unwrap(),
                _ if fresh_ok => fresh,
                _ => own.unwrap_or(fresh),
            };
            Op::Upsert(k, g.val(r), h)
        }
        50..=71 => Op::Delete(if n > 0 && r.random_range(0..8) != 0 { pick_present(r) } else { g.key(r) }),
        72..=81 => {
            let sz = r.random_range(0..6usize);
            let dup = r.random_range(0..10) == 0;
            let mut items: Vec<(i64, i64, H32)> = Vec::new();
            for _ in 0..sz {
                let mut now: Vec<(i64, H32)> = present.to_vec();
                now.extend(items.iter().map(|x| (x.0, x.2)));
                let bad = dup && r.random_range(0..2) == 0;
                let (bk, bh) = (bad && r.random_range(0..2) == 0, bad && r.random_range(0..2) == 0);
                let k = g.key_pref(r, &now, !bk);
                let h = g.hash_pref(r, &now, !bh);
                // a batch that is meant to be valid stops growing when the key or hash space is used up
                if !dup && (now.iter().any(|x| x.0 == k) || now.iter().any(|x| x.1 == h)) {
                    break;
                }
                items.push((k, g.val(r), h));
            }
            Op::Batch(items)
        }
        82..=91 => Op::Calc,
        _ => Op::Reload,
    }
}

/// exploration only (not part of the check): InsertLocation::Leaf naming a block that is not a live leaf
fn probe_stale() {
    let h = |i: u8| hash_of(&[i; 32]);
    let mut b = new_blob(Vec::new()).unwrap();
    b.insert(KeyId(1), ValueId(1), &h(1), InsertLocation::Auto {}).unwrap();
    b.insert(KeyId(2), ValueId(2), &h(2), InsertLocation::Auto {}).unwrap();
    b.insert(KeyId(3), ValueId(3), &h(3), InsertLocation::Auto {}).unwrap();
    b.insert(KeyId(4), ValueId(4), &h(4), InsertLocation::Auto {}).unwrap();
    let i3 = b.get_key_index(KeyId(3)).unwrap();
    b.delete(KeyId(3)).unwrap();
    eprintln!("probe: freed leaf index {i3}, integrity before = {:?}", b.check_integrity());
    for idx in [i3.0, 0, 99] {
        let mut c = b.clone();
        c.check_integrity_on_drop = false;
        let r = catch(AssertUnwindSafe(|| c.insert(KeyId(9), ValueId(9), &h(9), InsertLocation::Leaf { index: TreeIndex(idx), side: Side::Left })));
        let integ = catch(AssertUnwindSafe(|| c.check_integrity()));
        eprintln!("probe: insert at Leaf{{index {idx}}} -> {:?}; integrity {:?}; tree {}", r.map(|x| x.map(|_| ())), integ, project(&c).0.to_string().len());
    }
}

pub fn record(args: &Args) {
    if args.get("probe").is_some() {
        probe_stale();
        return;
    }
    let mut out = Out::create(args.req("out"));
    let seed = args.u64("seed", 1);
    let mut r = rng(seed ^ 0xC18);
    if let Some(cases) = args.get("cases") {
        let mut trie = Trie::default();
        let mut n = 0usize;
        for c in read_ndjson(cases) {
            trie.add(c["hist"].as_array().expect("hist"));
            n += 1;
        }
        let blob = new_blob(Vec::new()).expect("empty blob");
        let mut st = Stats { ops: 0, unhealthy: 0, skipped: 0 };
        out.emit(&json!({"k": "reset"}));
        // one top-level subtree at a time, so that the file can be sharded at `reset` events
        for kid in std::mem::take(&mut trie.kids) {
            let one = Trie { kids: vec![kid] };
            replay(&one, &blob, &mut out, &mut r, &mut st);
            out.emit(&json!({"k": "reset"}));
        }
        eprintln!("merkleblob: {n} cases, {} calls replayed, {} ended unhealthy, {} not expressible", st.ops, st.unhealthy, st.skipped);
        out.finish();
        return;
    }
    let nhist = args.u64("hist", 20) as usize;
    let len = args.u64("len", 50) as usize;
    let nk = args.u64("keys", 20) as usize;
    let nh = args.u64("hashes", 12) as usize;
    let wide = args.u64("wide", 0) == 1;
    let max_proofs = args.u64("proofs", 4) as usize;
    let g = Gen {
        keys: (0..nk).map(|i| if i % 5 == 4 { r.random::<i64>() } else { i as i64 + 1 }).collect(),
        hashes: (0..nh).map(|_| r.random::<H32>()).collect(),
        wide,
    };
    let mut total = 0usize;
    for hi in 0..nhist {
        out.emit(&json!({"k": "reset"}));
        let mut blob = new_blob(Vec::new()).expect("empty blob");
        let mut drain_to: Option<usize> = None;
        // every third history starts with a growth phase, so that deep trees and many free indexes occur
        let grow_until = if hi % 3 == 0 || wide { len / 3 } else { 0 };
        let mut i = 0;
        while i < len {
            let present = present_of(&blob);
            if drain_to.is_none() && present.len() >= 3 && r.random_range(0..25) == 0 {
                drain_to = Some(r.random_range(0..3));
            }
            if let Some(t) = drain_to {
                if present.len() <= t {
                    drain_to = None;
                }
            }
            let op = gen_op(&g, &mut r, &present, drain_to.is_some(), i < grow_until);
            i += 1;
            match apply(&mut blob, &op, &mut r, max_proofs, false) {
                None => {}
                Some(o) => {
                    out.emit(&o.ev);
                    total += 1;
                    if !o.healthy {
                        break;
                    }
                }
            }
        }
    }
    out.emit(&json!({"k": "reset"}));
    eprintln!("merkleblob: {total} calls in {nhist} random histories");
    out.finish();
}
