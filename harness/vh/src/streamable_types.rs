//! C13 / C14: the concrete Rust type registry. One `probe!` line per Streamable type; the
//! string is the name under which tools/schema.py knows the type (a Rust type expression for
//! combinator instances). The list follows the upstream fuzz target
//! (crates/chia-protocol/fuzz/fuzz_targets/streamable.rs), the exports of chia-protocol and the
//! derive(Streamable) types of chia-consensus / chia-datalayer / chia-bls. A type that
//! disappears upstream makes this file fail to compile: that is a tool error, not a violation.
use crate::streamable::{arb_event, probe_bytes, run14, Entry};
use chia_bls::{G1Element, G2Element, GTElement, SecretKey};
use chia_protocol::*;

macro_rules! probe {
    ($v:ident, $t:ty, $name:expr) => {
        $v.push(Entry { name: $name, probe: probe_bytes::<$t>, arb: None, run14: run14::<$t>, leaf: false });
    };
}
macro_rules! probe_leaf {
    ($v:ident, $t:ty, $name:expr) => {
        $v.push(Entry { name: $name, probe: probe_bytes::<$t>, arb: None, run14: run14::<$t>, leaf: true });
    };
}
macro_rules! probe_arb {
    ($v:ident, $t:ty, $name:expr) => {
        $v.push(Entry { name: $name, probe: probe_bytes::<$t>, arb: Some(arb_event::<$t>), run14: run14::<$t>, leaf: false });
    };
}

pub fn registry() -> Vec<Entry> {
    let mut v: Vec<Entry> = Vec::new();
    // ---- named types (generated from the schema of the tree this harness was written against) ----
    probe_arb!(v, BlockRecord, "BlockRecord");
    probe_arb!(v, ChallengeBlockInfo, "ChallengeBlockInfo");
    probe_arb!(v, ChallengeChainSubSlot, "ChallengeChainSubSlot");
    probe_arb!(v, ClassgroupElement, "ClassgroupElement");
    probe_arb!(v, Coin, "Coin");
    probe_arb!(v, CoinRecord, "CoinRecord");
    probe_arb!(v, CoinSpend, "CoinSpend");
    probe_arb!(v, CoinState, "CoinState");
    probe_arb!(v, CoinStateFilters, "CoinStateFilters");
    probe_arb!(v, CoinStateUpdate, "CoinStateUpdate");
    probe_arb!(v, EndOfSubSlotBundle, "EndOfSubSlotBundle");
    probe_arb!(v, FeeEstimate, "FeeEstimate");
    probe_arb!(v, FeeEstimateGroup, "FeeEstimateGroup");
    probe_arb!(v, FeeRate, "FeeRate");
    probe_arb!(v, Foliage, "Foliage");
    probe_arb!(v, FoliageBlockData, "FoliageBlockData");
    probe_arb!(v, FoliageTransactionBlock, "FoliageTransactionBlock");
    probe_arb!(v, FullBlock, "FullBlock");
    probe_arb!(v, Handshake, "Handshake");
    probe_arb!(v, HeaderBlock, "HeaderBlock");
    probe_arb!(v, InfusedChallengeChainSubSlot, "InfusedChallengeChainSubSlot");
    probe_arb!(v, MempoolItemsAdded, "MempoolItemsAdded");
    probe_arb!(v, MempoolItemsRemoved, "MempoolItemsRemoved");
    probe_arb!(v, MempoolRemoveReason, "MempoolRemoveReason");
    probe_arb!(v, Message, "Message");
    probe_arb!(v, NewCompactVDF, "NewCompactVDF");
    probe_arb!(v, NewPeak, "NewPeak");
    probe_arb!(v, NewPeakWallet, "NewPeakWallet");
    probe_arb!(v, NewSignagePointOrEndOfSubSlot, "NewSignagePointOrEndOfSubSlot");
    probe_arb!(v, NewTransaction, "NewTransaction");
    probe_arb!(v, NewUnfinishedBlock, "NewUnfinishedBlock");
    probe_arb!(v, NewUnfinishedBlock2, "NewUnfinishedBlock2");
    probe_arb!(v, NodeType, "NodeType");
    probe_arb!(v, PartialProof, "PartialProof");
    probe_arb!(v, PoolTarget, "PoolTarget");
    probe_arb!(v, ProofBlockHeader, "ProofBlockHeader");
    probe_arb!(v, ProofOfSpace, "ProofOfSpace");
    probe_arb!(v, ProtocolMessageTypes, "ProtocolMessageTypes");
    probe_arb!(v, PuzzleSolutionResponse, "PuzzleSolutionResponse");
    probe_arb!(v, RecentChainData, "RecentChainData");
    probe_arb!(v, RegisterForCoinUpdates, "RegisterForCoinUpdates");
    probe_arb!(v, RegisterForPhUpdates, "RegisterForPhUpdates");
    probe_arb!(v, RejectAdditionsRequest, "RejectAdditionsRequest");
    probe_arb!(v, RejectBlock, "RejectBlock");
    probe_arb!(v, RejectBlockHeaders, "RejectBlockHeaders");
    probe_arb!(v, RejectBlocks, "RejectBlocks");
    probe_arb!(v, RejectCoinState, "RejectCoinState");
    probe_arb!(v, RejectHeaderBlocks, "RejectHeaderBlocks");
    probe_arb!(v, RejectHeaderRequest, "RejectHeaderRequest");
    probe_arb!(v, RejectPuzzleSolution, "RejectPuzzleSolution");
    probe_arb!(v, RejectPuzzleState, "RejectPuzzleState");
    probe_arb!(v, RejectRemovalsRequest, "RejectRemovalsRequest");
    probe_arb!(v, RejectStateReason, "RejectStateReason");
    probe_arb!(v, RemovedMempoolItem, "RemovedMempoolItem");
    probe_arb!(v, RequestAdditions, "RequestAdditions");
    probe_arb!(v, RequestBlock, "RequestBlock");
    probe_arb!(v, RequestBlockHeader, "RequestBlockHeader");
    probe_arb!(v, RequestBlockHeaders, "RequestBlockHeaders");
    probe_arb!(v, RequestBlocks, "RequestBlocks");
    probe_arb!(v, RequestChildren, "RequestChildren");
    probe_arb!(v, RequestCoinState, "RequestCoinState");
    probe_arb!(v, RequestCompactVDF, "RequestCompactVDF");
    probe_arb!(v, RequestCostInfo, "RequestCostInfo");
    probe_arb!(v, RequestFeeEstimates, "RequestFeeEstimates");
    probe_arb!(v, RequestHeaderBlocks, "RequestHeaderBlocks");
    probe_arb!(v, RequestMempoolTransactions, "RequestMempoolTransactions");
    probe_arb!(v, RequestPeers, "RequestPeers");
    probe_arb!(v, RequestProofOfWeight, "RequestProofOfWeight");
    probe_arb!(v, RequestPuzzleSolution, "RequestPuzzleSolution");
    probe_arb!(v, RequestPuzzleState, "RequestPuzzleState");
    probe_arb!(v, RequestRemovals, "RequestRemovals");
    probe_arb!(v, RequestRemoveCoinSubscriptions, "RequestRemoveCoinSubscriptions");
    probe_arb!(v, RequestRemovePuzzleSubscriptions, "RequestRemovePuzzleSubscriptions");
    probe_arb!(v, RequestSesInfo, "RequestSesInfo");
    probe_arb!(v, RequestSignagePointOrEndOfSubSlot, "RequestSignagePointOrEndOfSubSlot");
    probe_arb!(v, RequestTransaction, "RequestTransaction");
    probe_arb!(v, RequestUnfinishedBlock, "RequestUnfinishedBlock");
    probe_arb!(v, RequestUnfinishedBlock2, "RequestUnfinishedBlock2");
    probe_arb!(v, RespondAdditions, "RespondAdditions");
    probe_arb!(v, RespondBlock, "RespondBlock");
    probe_arb!(v, RespondBlockHeader, "RespondBlockHeader");
    probe_arb!(v, RespondBlockHeaders, "RespondBlockHeaders");
    probe_arb!(v, RespondBlocks, "RespondBlocks");
    probe_arb!(v, RespondChildren, "RespondChildren");
    probe_arb!(v, RespondCoinState, "RespondCoinState");
    probe_arb!(v, RespondCompactVDF, "RespondCompactVDF");
    probe_arb!(v, RespondCostInfo, "RespondCostInfo");
    probe_arb!(v, RespondEndOfSubSlot, "RespondEndOfSubSlot");
    probe_arb!(v, RespondFeeEstimates, "RespondFeeEstimates");
    probe_arb!(v, RespondHeaderBlocks, "RespondHeaderBlocks");
    probe_arb!(v, RespondPeers, "RespondPeers");
    probe_arb!(v, RespondProofOfWeight, "RespondProofOfWeight");
    probe_arb!(v, RespondPuzzleSolution, "RespondPuzzleSolution");
    probe_arb!(v, RespondPuzzleState, "RespondPuzzleState");
    probe_arb!(v, RespondRemovals, "RespondRemovals");
    probe_arb!(v, RespondRemoveCoinSubscriptions, "RespondRemoveCoinSubscriptions");
    probe_arb!(v, RespondRemovePuzzleSubscriptions, "RespondRemovePuzzleSubscriptions");
    probe_arb!(v, RespondSesInfo, "RespondSesInfo");
    probe_arb!(v, RespondSignagePoint, "RespondSignagePoint");
    probe_arb!(v, RespondToCoinUpdates, "RespondToCoinUpdates");
    probe_arb!(v, RespondToPhUpdates, "RespondToPhUpdates");
    probe_arb!(v, RespondTransaction, "RespondTransaction");
    probe_arb!(v, RespondUnfinishedBlock, "RespondUnfinishedBlock");
    probe_arb!(v, RewardChainBlock, "RewardChainBlock");
    probe_arb!(v, RewardChainBlockUnfinished, "RewardChainBlockUnfinished");
    probe_arb!(v, RewardChainSubSlot, "RewardChainSubSlot");
    probe_arb!(v, SendTransaction, "SendTransaction");
    probe_arb!(v, SpendBundle, "SpendBundle");
    probe_arb!(v, SubEpochChallengeSegment, "SubEpochChallengeSegment");
    probe_arb!(v, SubEpochData, "SubEpochData");
    probe_arb!(v, SubEpochSegments, "SubEpochSegments");
    probe_arb!(v, SubEpochSummary, "SubEpochSummary");
    probe_arb!(v, SubSlotData, "SubSlotData");
    probe_arb!(v, SubSlotProofs, "SubSlotProofs");
    probe_arb!(v, TimestampedPeerInfo, "TimestampedPeerInfo");
    probe_arb!(v, TransactionAck, "TransactionAck");
    probe_arb!(v, TransactionsInfo, "TransactionsInfo");
    probe_arb!(v, UnfinishedBlock, "UnfinishedBlock");
    probe_arb!(v, UnfinishedHeaderBlock, "UnfinishedHeaderBlock");
    probe_arb!(v, VDFInfo, "VDFInfo");
    probe_arb!(v, VDFProof, "VDFProof");
    probe_arb!(v, WeightProof, "WeightProof");
    probe!(v, chia_consensus::consensus_constants::ConsensusConstants, "ConsensusConstants");
    probe!(v, chia_consensus::owned_conditions::OwnedSpendBundleConditions, "OwnedSpendBundleConditions");
    probe!(v, chia_consensus::owned_conditions::OwnedSpendConditions, "OwnedSpendConditions");
    probe!(v, chia_datalayer::Hash, "Hash");
    probe!(v, chia_datalayer::InternalNode, "InternalNode");
    probe!(v, chia_datalayer::KeyId, "KeyId");
    probe!(v, chia_datalayer::LeafNode, "LeafNode");
    probe!(v, chia_datalayer::NodeMetadata, "NodeMetadata");
    probe!(v, chia_datalayer::NodeType, "datalayer::NodeType");
    probe!(v, chia_datalayer::Parent, "Parent");
    probe!(v, chia_datalayer::ProofOfInclusion, "ProofOfInclusion");
    probe!(v, chia_datalayer::ProofOfInclusionLayer, "ProofOfInclusionLayer");
    probe!(v, chia_datalayer::Side, "Side");
    probe!(v, chia_datalayer::TreeIndex, "TreeIndex");
    probe!(v, chia_datalayer::ValueId, "ValueId");
    // ---- hand-written leaf codecs ----
    probe_arb!(v, Program, "Program");
    probe_arb!(v, Bytes, "Bytes");
    probe_arb!(v, Bytes32, "Bytes32");
    probe_arb!(v, Bytes48, "Bytes48");
    probe_arb!(v, Bytes96, "Bytes96");
    probe_arb!(v, Bytes100, "Bytes100");
    probe_arb!(v, G1Element, "G1Element");
    probe_arb!(v, G2Element, "G2Element");
    probe_arb!(v, String, "String");
    probe_arb!(v, bool, "bool");
    probe_arb!(v, u8, "u8");
    probe_arb!(v, i8, "i8");
    probe_arb!(v, u16, "u16");
    probe_arb!(v, i16, "i16");
    probe_arb!(v, u32, "u32");
    probe_arb!(v, i32, "i32");
    probe_arb!(v, u64, "u64");
    probe_arb!(v, i64, "i64");
    probe_arb!(v, u128, "u128");
    probe_arb!(v, i128, "i128");
    // not expressible in the schema (validity is neither grammar nor one of the logged oracles):
    // relational clauses only
    probe_leaf!(v, SecretKey, "SecretKey");
    probe_leaf!(v, GTElement, "GTElement");
    // ---- combinator instances (names must match GenTypes of MC_Streamable.tla) ----
    probe_arb!(v, Option<u8>, "Option<u8>");
    probe_arb!(v, Option<bool>, "Option<bool>");
    probe_arb!(v, Option<Option<bool>>, "Option<Option<bool>>");
    probe_arb!(v, Vec<bool>, "Vec<bool>");
    probe_arb!(v, Vec<u8>, "Vec<u8>");
    probe_arb!(v, Vec<Option<u8>>, "Vec<Option<u8>>");
    probe_arb!(v, Option<Vec<bool>>, "Option<Vec<bool>>");
    probe_arb!(v, Vec<Vec<u8>>, "Vec<Vec<u8>>");
    probe_arb!(v, (u8, Option<u16>), "(u8, Option<u16>)");
    probe_arb!(v, (bool, bool, u8), "(bool, bool, u8)");
    probe_arb!(v, (Option<bool>, Vec<u8>, bool, u8), "(Option<bool>, Vec<u8>, bool, u8)");
    probe_arb!(v, Vec<(u8, bool)>, "Vec<(u8, bool)>");
    probe_arb!(v, [u8; 2], "[u8; 2]");
    probe_arb!(v, [bool; 3], "[bool; 3]");
    probe_arb!(v, Option<String>, "Option<String>");
    probe_arb!(v, Option<Bytes>, "Option<Bytes>");
    probe_arb!(v, (u8, Bytes), "(u8, Bytes)");
    probe_arb!(v, Option<Program>, "Option<Program>");
    probe_arb!(v, (Program, u8), "(Program, u8)");
    probe_arb!(v, Vec<Program>, "Vec<Program>");
    probe_arb!(v, Vec<Coin>, "Vec<Coin>");
    probe_arb!(v, Vec<(Bytes32, u64, Option<Bytes>)>, "Vec<(Bytes32, u64, Option<Bytes>)>");
    probe_arb!(v, Vec<(G1Element, Bytes)>, "Vec<(G1Element, Bytes)>");
    probe_arb!(v, Option<G2Element>, "Option<G2Element>");
    probe_arb!(v, Vec<Vec<Vec<u32>>>, "Vec<Vec<Vec<u32>>>");
    probe_arb!(v, Vec<String>, "Vec<String>");
    probe_arb!(v, Option<FullBlock>, "Option<FullBlock>");
    probe_arb!(v, Vec<ProofOfSpace>, "Vec<ProofOfSpace>");
    probe_arb!(v, (Bytes32, Vec<Coin>), "(Bytes32, Vec<Coin>)");
    probe_arb!(v, [u64; 16], "[u64; 16]");
    probe_arb!(v, (), "()");
    v
}
