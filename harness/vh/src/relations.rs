//! C06: pairs of parse_spends runs on related inputs (strictness subsets, permutations).
use crate::conditions::*;
use crate::sx::*;
use crate::util::*;
use rand::rngs::StdRng;
use rand::Rng;
use serde_json::{json, Value};

const STRICTNESS: [&str; 3] = ["NO_UNKNOWN_CONDS", "STRICT_ARGS_COUNT", "LIMIT_SPENDS"];

fn res(tree: &Sx, flags: &[String], max: u64, vis: &str, consts: &Consts) -> Value {
    run_parse_spends(tree, flags_from_names(flags), max, 0, vis == "mempool", consts)
}

fn strict_events(out: &mut Out, tree: &Sx, fork: &[String], vis: &str, consts: &Consts, with_tree: bool) {
    let lax = res(tree, fork, 11_000_000_000, vis, consts);
    for mask in 1..8u32 {
        let mut f = fork.to_vec();
        let mut s = Vec::new();
        for (i, n) in STRICTNESS.iter().enumerate() {
            if mask & (1 << i) != 0 {
                f.push((*n).to_string());
                s.push((*n).to_string());
            }
        }
        let a = res(tree, &f, 11_000_000_000, vis, consts);
        let mut e = json!({"k": "strict", "flags": fork, "strict": s, "vis": vis, "a": a, "b": lax});
        if with_tree {
            e["tree"] = tree.to_jsonf();
        }
        out.emit(&e);
    }
}

fn list_parts(s: &Sx) -> (Vec<Sx>, Sx) {
    let mut items = Vec::new();
    let mut cur = s;
    loop {
        match cur {
            Sx::A(_) => return (items, cur.clone()),
            Sx::P(l, r) => {
                items.push((**l).clone());
                cur = r;
            }
        }
    }
}

/// permute the spends and the conditions of each spend, keeping terminators and extras
pub fn permute(tree: &Sx, r: &mut StdRng) -> Option<Sx> {
    let Sx::P(spend_list, outer_rest) = tree else { return None };
    let (mut spends, term) = list_parts(spend_list);
    for sp in &mut spends {
        // (parent ph amount conds . extra)
        let (mut fields, ftail) = list_parts(sp);
        if fields.len() >= 4 {
            let (mut conds, ctail) = list_parts(&fields[3]);
            shuffle(&mut conds, r);
            fields[3] = Sx::list_tail(conds, ctail);
            *sp = Sx::list_tail(fields, ftail);
        }
    }
    shuffle(&mut spends, r);
    Some(Sx::cons(Sx::list_tail(spends, term), (**outer_rest).clone()))
}

fn shuffle(v: &mut [Sx], r: &mut StdRng) {
    for i in (1..v.len()).rev() {
        let j = r.random_range(0..=i);
        v.swap(i, j);
    }
}

pub fn record(args: &Args) {
    let seed = args.u64("seed", 1);
    let mut r = rng(seed);
    let mut out = Out::create(args.req("out"));
    let consts = Consts::random(&mut r);
    if let Some(cases) = args.get("cases") {
        for c in read_ndjson(cases) {
            let tree = Sx::from_json(&c["tree"]);
            let flags = names_from_json(&c["flags"]);
            let vis = c["vis"].as_str().unwrap_or("empty").to_string();
            let d = &c["consts"];
            let cc = Consts::from_doms([
                from_jbytes(&d["me"]), from_jbytes(&d["parent"]), from_jbytes(&d["puzzle"]), from_jbytes(&d["amount"]),
                from_jbytes(&d["puzzle_amount"]), from_jbytes(&d["parent_amount"]), from_jbytes(&d["parent_puzzle"]),
            ]);
            if c["mode"].as_str() == Some("strict") {
                strict_events(&mut out, &tree, &flags, &vis, &cc, true);
            } else {
                let tree2 = Sx::from_json(&c["tree2"]);
                let a = res(&tree, &flags, 11_000_000_000, &vis, &cc);
                let b = res(&tree2, &flags, 11_000_000_000, &vis, &cc);
                out.emit(&json!({"k": "perm", "tree": tree.to_jsonf(), "tree2": tree2.to_jsonf(), "flags": flags, "vis": vis, "a": a, "b": b}));
            }
        }
    }
    let n = args.u64("n", 0);
    for _ in 0..n {
        let fork: Vec<String> = {
            let mut f = vec!["DONT_VALIDATE_SIGNATURE".to_string()];
            if r.random::<bool>() {
                f.push("COST_CONDITIONS".to_string());
            }
            f
        };
        let tree = {
            let clean = r.random_range(0..10) < 7;
            let mut g = Gen::new(&mut r, &consts);
            g.clean = clean;
            g.no_unknown = false;
            gen_bundle(&mut g, 4, 6)
        };
        let vis = if r.random::<bool>() { "mempool" } else { "empty" };
        strict_events(&mut out, &tree, &fork, vis, &consts, true);
        // permutations under a random flag set and a cost limit that sometimes bites
        let mut flags = fork.clone();
        for s in STRICTNESS.iter().take(2) {
            if r.random_range(0..3) == 0 {
                flags.push((*s).to_string());
            }
        }
        let a = res(&tree, &flags, 11_000_000_000, vis, &consts);
        let max = if a["ok"].as_bool() == Some(true) && r.random_range(0..4) == 0 {
            let t = bignat_to_u128(&a["r"]["cost"]) as u64;
            t.saturating_sub(r.random_range(0..2))
        } else {
            11_000_000_000
        };
        let a = res(&tree, &flags, max, vis, &consts);
        for _ in 0..2 {
            if let Some(t2) = permute(&tree, &mut r) {
                let b = res(&t2, &flags, max, vis, &consts);
                out.emit(&json!({"k": "perm", "tree": tree.to_jsonf(), "tree2": t2.to_jsonf(), "flags": flags, "vis": vis, "a": a, "b": b}));
            }
        }
    }
    // multiplicity family: the order variants of one multiset of spends / conditions, pairwise against the first
    if args.u64("flood", 0) > 0 {
        for (label, trees) in flood_groups() {
            for fl in [vec!["DONT_VALIDATE_SIGNATURE"], vec!["DONT_VALIDATE_SIGNATURE", "COST_CONDITIONS"]] {
                let flags: Vec<String> = fl.iter().map(|x| (*x).to_string()).collect();
                let a = res(&trees[0], &flags, 11_000_000_000, "mempool", &consts);
                for t2 in &trees[1..] {
                    let b = res(t2, &flags, 11_000_000_000, "mempool", &consts);
                    out.emit(&json!({"k": "perm", "src": "flood", "label": label, "flags": flags, "vis": "mempool", "a": a, "b": b}));
                }
            }
        }
    }
    // LIMIT_SPENDS: bundles of 5999, 6000 and 6001 trivial spends (relation on observed results only)
    if args.u64("limit-spends", 0) > 0 {
        for count in [5999usize, 6000, 6001] {
            let mut spends = Vec::new();
            for i in 0..count {
                let mut parent = vec![0u8; 32];
                parent[28..].copy_from_slice(&(i as u32).to_be_bytes());
                spends.push(Sx::list(vec![Sx::A(parent), Sx::A(vec![2u8; 32]), Sx::uint(1), Sx::nil()]));
            }
            let tree = Sx::list(vec![Sx::list(spends)]);
            let fork = vec!["DONT_VALIDATE_SIGNATURE".to_string()];
            let before = out.n;
            strict_events(&mut out, &tree, &fork, "empty", &consts, false);
            let _ = before;
            out.emit(&json!({"k": "limit", "count": count,
                "with": res(&tree, &["DONT_VALIDATE_SIGNATURE".to_string(), "LIMIT_SPENDS".to_string()], 11_000_000_000, "empty", &consts)["ok"],
                "without": res(&tree, &fork, 11_000_000_000, "empty", &consts)["ok"]}));
        }
    }
    let n = out.finish();
    println!("{}", json!({"events": n}));
}
