//! C10: histories of add_spend_bundles / finalize on the two block builders
//! (build_compressed_block::BlockBuilder, build_interned_block::InternedBlockBuilder).
//! Events (vocabulary of spec/BlockBuilder.tla, validated by spec/trace/Trace_BlockBuilder.tla):
//!   reset    {kind, max, cpb, cost0}                       a fresh builder
//!   add      {n, plain, iso, spends, sigs, declared, truthful, res, added, done, cost_after}
//!   finalize {est, res, generator_len, cost, exact, shape, spends, sig_eq_added, sig_verify, rbg2, twin}
//! Everything the spec needs about a batch is measured independently of the builders: `plain` = bytes of
//! the uncompressed serialisation appended to the stream (1 + serialised length of every spend item),
//! `iso` = sum of the interned vbytes of every spend item in isolation (+3), both on the Sx model;
//! `truthful` = execution + condition cost of run_spendbundle on each bundle. The final generator is decoded
//! with clvmr (back-reference decoder), its interned vbytes are recomputed on the Sx model, the returned
//! signature is compared with the raw blst sum of the signatures of the batches that were reported added
//! and (synthetic bundles) checked with aggregate_verify and by run_block_generator2 without
//! DONT_VALIDATE_SIGNATURE. A panic is data.
//! All numbers are kept below 2^31 (max_block_cost_clvm is lowered to 10^8) because the trace
//! specification uses TLC integers.
use crate::generator::*;
use crate::sx::*;
use crate::util::*;
use chia_bls::{PublicKey, SecretKey, Signature};
use chia_consensus::build_compressed_block::{BlockBuilder, BuildBlockResult as CResult};
use chia_consensus::build_interned_block::{BuildBlockResult as IResult, InternedBlockBuilder};
use chia_consensus::consensus_constants::{ConsensusConstants, TEST_CONSTANTS};
use chia_consensus::flags::ConsensusFlags;
use chia_consensus::run_block_generator::run_block_generator2;
use chia_consensus::spendbundle_conditions::run_spendbundle;
use chia_protocol::{Bytes32, Coin, CoinSpend, Program, SpendBundle};
use chia_traits::Streamable;
use clvmr::allocator::Allocator;
use clvmr::serde::node_from_bytes_backrefs;
use rand::rngs::StdRng;
use rand::Rng;
use serde_json::{json, Value};
use std::collections::HashSet;

const LIMIT: u64 = (1 << 31) - 1;

fn num(v: u64) -> Value {
    assert!(v <= LIMIT, "number {v} does not fit a TLC integer");
    json!(v)
}

#[derive(Clone, Copy, PartialEq)]
pub enum Kind {
    Compressed,
    Interned,
}
impl Kind {
    fn name(self) -> &'static str {
        match self {
            Kind::Compressed => "compressed",
            Kind::Interned => "interned",
        }
    }
}

enum AnyBuilder {
    C(BlockBuilder),
    I(InternedBlockBuilder),
}

impl AnyBuilder {
    fn new(kind: Kind, c: &ConsensusConstants) -> AnyBuilder {
        match kind {
            Kind::Compressed => AnyBuilder::C(BlockBuilder::new().expect("BlockBuilder::new")),
            Kind::Interned => AnyBuilder::I(InternedBlockBuilder::new(c)),
        }
    }
    fn add(&mut self, bundles: &[&SpendBundle], cost: u64, c: &ConsensusConstants) -> Result<(bool, bool), String> {
        match self {
            AnyBuilder::C(b) => b.add_spend_bundles(bundles.iter().copied(), cost, c).map(|(a, r)| (a, r == CResult::Done)).map_err(|e| format!("{e:?}")),
            AnyBuilder::I(b) => b.add_spend_bundles(bundles.iter().copied(), cost).map(|(a, r)| (a, r == IResult::Done)).map_err(|e| format!("{e:?}")),
        }
    }
    fn cost(&self) -> u64 {
        match self {
            AnyBuilder::C(b) => b.cost(),
            AnyBuilder::I(b) => b.cost(),
        }
    }
    fn finalize(self, c: &ConsensusConstants) -> Result<(Vec<u8>, Signature, u64), String> {
        match self {
            AnyBuilder::C(b) => b.finalize(c).map_err(|e| format!("{e:?}")),
            AnyBuilder::I(mut b) => b.finalize().map_err(|e| format!("{e:?}")),
        }
    }
}

/// a call on the builder with panics turned into data; a builder that panicked is gone
fn guarded<T>(f: impl FnOnce() -> Result<T, String>) -> Result<T, String> {
    match catch(std::panic::AssertUnwindSafe(f)) {
        Ok(Ok(v)) => Ok(v),
        Ok(Err(e)) => Err(format!("err: {e}")),
        Err(p) => Err(format!("panic: {p}")),
    }
}

// ---------------------------------------------------------------------------
// independent measurements on the Sx model
// ---------------------------------------------------------------------------

/// interned vbytes (generator_cost.rs): atom bytes + 2 per distinct atom + 3 per distinct pair,
/// distinctness by structural equality (pairs are identified by their tree hash)
pub fn interned_vbytes_sx(s: &Sx) -> u64 {
    fn walk(s: &Sx, atoms: &mut HashSet<Vec<u8>>, pairs: &mut HashSet<Vec<u8>>) -> Vec<u8> {
        match s {
            Sx::A(b) => {
                atoms.insert(b.clone());
                sha256(&[&[1u8], b])
            }
            Sx::P(l, r) => {
                let lh = walk(l, atoms, pairs);
                let rh = walk(r, atoms, pairs);
                let h = sha256(&[&[2u8], &lh, &rh]);
                pairs.insert(h.clone());
                h
            }
        }
    }
    let mut atoms = HashSet::new();
    let mut pairs = HashSet::new();
    walk(s, &mut atoms, &mut pairs);
    atoms.iter().map(|a| a.len() as u64).sum::<u64>() + 2 * atoms.len() as u64 + 3 * pairs.len() as u64
}

fn decode_sx(bytes: &[u8]) -> Option<Sx> {
    let mut a = Allocator::new();
    let n = node_from_bytes_backrefs(&mut a, bytes).ok()?;
    Some(Sx::from_node(&a, n))
}

fn spend_json(parent: &[u8], puzzle: &Sx, amount_atom: &[u8], solution: &Sx) -> Value {
    json!({"p": hex::encode(parent), "ph": hex::encode(tree_hash_sx(puzzle)), "amt": hex::encode(amount_atom), "sol": hex::encode(tree_hash_sx(solution))})
}

/// a bundle of the pool with everything the specification needs to know about it
pub struct PB {
    pub id: String,
    pub bundle: SpendBundle,
    pub spends: Vec<Value>,
    pub n: u64,
    pub plain: u64,
    pub iso: u64,
    pub truthful: u64,
    pub sig: [u8; 96],
    pub pkm: Vec<(PublicKey, Vec<u8>)>,
    pub synthetic: bool,
    pub coin_ids: Vec<Vec<u8>>,
    pub class: String,
}

fn measure(id: String, class: &str, bundle: SpendBundle, pkm: Vec<(PublicKey, Vec<u8>)>, synthetic: bool, consts: &ConsensusConstants) -> Result<PB, String> {
    let mut spends = Vec::new();
    let mut plain = 0u64;
    let mut iso = 0u64;
    let mut coin_ids = Vec::new();
    for cs in &bundle.coin_spends {
        let puzzle = decode_sx(cs.puzzle_reveal.as_ref()).ok_or("puzzle does not decode")?;
        let solution = decode_sx(cs.solution.as_ref()).ok_or("solution does not decode")?;
        let amt = enc_uint(cs.coin.amount as u128);
        let parent = cs.coin.parent_coin_info.as_ref().to_vec();
        let item = Sx::list(vec![Sx::A(parent.clone()), puzzle.clone(), Sx::A(amt.clone()), solution.clone()]);
        plain += 1 + ser_plain(&item).len() as u64;
        iso += interned_vbytes_sx(&item) + 3;
        spends.push(spend_json(&parent, &puzzle, &amt, &solution));
        coin_ids.push(sha256(&[&parent, &tree_hash_sx(&puzzle), &amt]));
    }
    // the truthful declared cost: execution + condition cost, the same under both cost models
    let mut costs = Vec::new();
    for fl in [ConsensusFlags::DONT_VALIDATE_SIGNATURE, ConsensusFlags::DONT_VALIDATE_SIGNATURE | ConsensusFlags::INTERNED_GENERATOR] {
        let mut a = Allocator::new();
        let r = catch(std::panic::AssertUnwindSafe(|| run_spendbundle(&mut a, &bundle, BLOCK_MAX, fl, consts).map(|(c, _)| (c.execution_cost + c.condition_cost, c.cost))));
        match r {
            Ok(Ok(c)) => costs.push(c),
            Ok(Err(e)) => return Err(format!("run_spendbundle: {e:?}")),
            Err(p) => return Err(format!("run_spendbundle panic: {p}")),
        }
    }
    if costs[0].0 != costs[1].0 {
        return Err("execution + condition cost depends on the cost model".to_string());
    }
    Ok(PB { id, bundle: bundle.clone(), spends, n: bundle.coin_spends.len() as u64, plain, iso, truthful: costs[0].0, sig: bundle.aggregated_signature.to_bytes(), pkm, synthetic, coin_ids, class: class.to_string() })
}

pub struct Maker {
    sk: SecretKey,
    pk: PublicKey,
    salts: Vec<Vec<u8>>,
    fillers: Vec<Vec<u8>>,
    counter: u64,
    consts: ConsensusConstants,
}

impl Maker {
    fn new(r: &mut StdRng, consts: &ConsensusConstants) -> Maker {
        let sk = SecretKey::from_seed(&rand_bytes(r, 32));
        let pk = sk.public_key();
        let salts = vec![vec![], rand_bytes(r, 3), rand_bytes(r, 5)];
        let fillers = vec![rand_bytes(r, 40), rand_bytes(r, 300)];
        Maker { sk, pk, salts, fillers, counter: 0, consts: consts.clone() }
    }

    /// synthetic bundle: salted identity puzzles whose solution is the condition list
    /// ((AGG_SIG_UNSAFE pk msg) (CREATE_COIN ph amt)* (REMARK filler)); signed for real
    fn synthetic(&mut self, r: &mut StdRng, class: &str) -> PB {
        let (nspends, ncc, fill): (usize, usize, usize) = match class {
            "A" => (1, 0, r.random_range(0..40)),
            "B" => (2, 1, r.random_range(20..90)),
            "C" => (3, 2, r.random_range(100..260)),
            "D" => (1, 0, r.random_range(800..1500)),
            "E" => (1, 3, 0), // expensive and small
            _ => (1, 0, 0),
        };
        self.counter += 1;
        let id = format!("s{}{}", class, self.counter);
        let mut sig = Signature::default();
        let mut pkm = Vec::new();
        let mut css = Vec::new();
        for i in 0..nspends {
            let salt = self.salts[r.random_range(0..self.salts.len())].clone();
            let puzzle = salted_identity(&salt);
            let mut msg = rand_bytes(r, 24);
            msg.extend_from_slice(&self.counter.to_be_bytes());
            msg.push(i as u8);
            let s = chia_bls::sign(&self.sk, &msg);
            sig.aggregate(&s);
            pkm.push((self.pk.clone(), msg.clone()));
            let amount: u64 = [1000u64, 0x8000, 1_000_000, 1_750_000_000_000][r.random_range(0..4usize)];
            let mut conds = vec![Sx::list(vec![Sx::A(vec![49]), Sx::A(self.pk.to_bytes().to_vec()), Sx::A(msg)])];
            for j in 0..ncc {
                conds.push(Sx::list(vec![Sx::A(vec![51]), Sx::A(rand_bytes(r, 32)), Sx::uint(1 + j as u128)]));
            }
            if fill > 0 {
                // a third of the fillers repeat a pool atom (compressible / internable), the rest are fresh bytes
                let f = if r.random_range(0..3) == 0 {
                    let base = &self.fillers[r.random_range(0..self.fillers.len())];
                    base.iter().cycle().take(fill).copied().collect()
                } else {
                    rand_bytes(r, fill)
                };
                conds.push(Sx::list(vec![Sx::A(vec![1]), Sx::A(f)]));
            }
            let solution = Sx::list(conds);
            let ph = tree_hash_sx(&puzzle);
            css.push(CoinSpend::new(
                Coin::new(Bytes32::try_from(rand_bytes(r, 32).as_slice()).unwrap(), Bytes32::try_from(ph.as_slice()).unwrap(), amount),
                Program::from(ser_plain(&puzzle)),
                Program::from(if r.random_range(0..4) == 0 { ser_backrefs(&solution) } else { ser_plain(&solution) }),
            ));
        }
        let bundle = SpendBundle::new(css, sig);
        measure(id, class, bundle, pkm, true, &self.consts).expect("synthetic bundle is valid")
    }
}

/// bundles of /repo/test-bundles that parse, validate on their own, are small enough for the lowered
/// block limit and do not spend or create a coin another chosen bundle spends
fn load_test_bundles(dir: &str, consts: &ConsensusConstants, max_total: u64, limit: usize) -> Vec<PB> {
    let mut names: Vec<_> = match std::fs::read_dir(dir) {
        Ok(d) => d.filter_map(|e| e.ok()).map(|e| e.path()).filter(|p| p.extension().is_some_and(|x| x == "bundle")).collect(),
        Err(_) => return vec![],
    };
    names.sort();
    let mut out = Vec::new();
    let mut seen: HashSet<Vec<u8>> = HashSet::new();
    for p in names {
        if out.len() >= limit {
            break;
        }
        let Ok(buf) = std::fs::read(&p) else { continue };
        if buf.is_empty() || buf.len() > 20_000 {
            continue;
        }
        let Ok(Ok(bundle)) = catch(std::panic::AssertUnwindSafe(|| SpendBundle::from_bytes(&buf))) else { continue };
        if bundle.coin_spends.is_empty() {
            continue;
        }
        let stem = p.file_stem().unwrap().to_string_lossy().to_string();
        let Ok(pb) = measure(format!("t{}", &stem[..stem.len().min(10)]), "T", bundle, vec![], false, consts) else { continue };
        if pb.plain * consts.cost_per_byte + pb.truthful > max_total {
            continue;
        }
        // conflicts: spent coins and created coins (as in the repository's ignored test_build_block)
        let mut a = Allocator::new();
        let Ok((conds, _)) = run_spendbundle(&mut a, &pb.bundle, BLOCK_MAX, ConsensusFlags::DONT_VALIDATE_SIGNATURE, consts) else { continue };
        let mut ids: Vec<Vec<u8>> = Vec::new();
        for s in &conds.spends {
            ids.push(s.coin_id.as_ref().to_vec());
            for c in &s.create_coin {
                ids.push(Coin::new(*s.coin_id, c.puzzle_hash, c.amount).coin_id().as_ref().to_vec());
            }
        }
        if ids.iter().any(|i| seen.contains(i)) {
            continue;
        }
        seen.extend(ids);
        out.push(pb);
    }
    out
}

fn load_named_bundle(dir: &str, stem: &str, consts: &ConsensusConstants) -> Option<PB> {
    let p = std::fs::read_dir(dir).ok()?.filter_map(|e| e.ok()).map(|e| e.path()).find(|p| p.file_name().is_some_and(|n| n.to_string_lossy().starts_with(stem)))?;
    let buf = std::fs::read(&p).ok()?;
    let bundle = catch(std::panic::AssertUnwindSafe(|| SpendBundle::from_bytes(&buf))).ok()?.ok()?;
    measure(format!("t{stem}"), "T", bundle, vec![], false, consts).ok()
}

fn blst_sum(sigs: &[[u8; 96]]) -> Option<[u8; 96]> {
    let mut acc = blst::blst_p2::default();
    for s in sigs {
        let mut aff = blst::blst_p2_affine::default();
        if unsafe { blst::blst_p2_uncompress(&mut aff, s.as_ptr()) } != blst::BLST_ERROR::BLST_SUCCESS {
            return None;
        }
        unsafe { blst::blst_p2_add_or_double_affine(&mut acc, &acc, &aff) };
    }
    let mut out = [0u8; 96];
    unsafe { blst::blst_p2_compress(out.as_mut_ptr(), &acc) };
    Some(out)
}

/// decode a generator: shape verdict and the spends it holds, in listed order
fn decode_generator(generator: &[u8]) -> (String, Vec<Value>, Option<Sx>) {
    let Some(tree) = decode_sx(generator) else { return ("undecodable".to_string(), vec![], None) };
    let Sx::P(q, rest) = &tree else { return ("atom".to_string(), vec![], Some(tree)) };
    if **q != Sx::A(vec![1]) {
        return ("not quoted".to_string(), vec![], Some(tree));
    }
    let Sx::P(list, tail) = &**rest else { return ("no spend list".to_string(), vec![], Some(tree)) };
    if **tail != Sx::nil() {
        return ("outer list not closed".to_string(), vec![], Some(tree));
    }
    let mut spends = Vec::new();
    let mut cur: &Sx = list;
    let mut shape = "ok".to_string();
    while let Sx::P(item, next) = cur {
        let mut f = Vec::new();
        let mut c: &Sx = item;
        while let Sx::P(l, r) = c {
            f.push(&**l);
            c = r;
        }
        match (f.len(), c, f.first(), f.get(2)) {
            (4, Sx::A(t), Some(Sx::A(parent)), Some(Sx::A(amt))) if t.is_empty() => spends.push(spend_json(parent, f[1], amt, f[3])),
            _ => shape = "bad spend item".to_string(),
        }
        cur = next;
    }
    if *cur != Sx::nil() {
        shape = "spend list not closed".to_string();
    }
    (shape, spends, Some(tree))
}

pub struct Step {
    pub batch: Vec<usize>, // indices into the arena
    pub label: String,
    pub want: String,
}

/// declared cost behind a menu label (MC_BlockBuilder!Declared): `base` is the estimate the builder would
/// have after accepting the batch with declared cost 0 (measured on a twin builder), None if that add fails
fn declared_for(label: &str, truthful: u64, est: u64, base: Option<u64>, c: &ConsensusConstants, thr: u64, r: &mut StdRng) -> (u64, String) {
    let max = c.max_block_cost_clvm as i64;
    let v: Option<i64> = match label {
        "zero" => Some(0),
        "truthful" => Some(truthful as i64),
        "huge" => Some(max),
        "pre-1" => Some(max - est as i64 - 1),
        "pre0" => Some(max - est as i64),
        "pre+1" => Some(max - est as i64 + 1),
        "fit-1" => base.map(|b| max - b as i64 - 1),
        "fit0" => base.map(|b| max - b as i64),
        "fit+1" => base.map(|b| max - b as i64 + 1),
        "near0" => base.map(|b| max - thr as i64 - b as i64),
        "near+1" => base.map(|b| max - thr as i64 - b as i64 + 1),
        "random" => Some(r.random_range(0..max)),
        _ => Some(truthful as i64),
    };
    match v {
        Some(x) if x >= 0 => (x as u64, label.to_string()),
        _ => (truthful, "truthful".to_string()),
    }
}

const THR: u64 = 6_000_000;

/// run one history and emit its events; returns the exits taken
pub fn run_history(out: &mut Out, kind: Kind, consts: &ConsensusConstants, arena: &[PB], steps: &[Step], src: &str, r: &mut StdRng, stats: &mut Stats, after_done: usize) {
    let c = consts;
    let b0 = guarded(|| Ok(AnyBuilder::new(kind, c)));
    let Ok(mut builder) = b0 else {
        out.emit(&json!({"k": "reset", "kind": kind.name(), "max": num(c.max_block_cost_clvm), "cpb": num(c.cost_per_byte), "cost0": -1, "res": b0.err().unwrap(), "src": src}));
        return;
    };
    out.emit(&json!({"k": "reset", "kind": kind.name(), "max": num(c.max_block_cost_clvm), "cpb": num(c.cost_per_byte), "cost0": num(builder.cost()), "res": "ok", "src": src}));
    stats.histories += 1;
    // every attempt so far (for the twin builders) and the accepted ones
    let mut attempts: Vec<(Vec<usize>, u64)> = Vec::new();
    let mut accepted: Vec<(Vec<usize>, u64)> = Vec::new();
    let mut reached_ix: Vec<usize> = Vec::new(); // bundles of the attempts that got past the two early exits
    let mut block_cost: u64 = 20;
    let mut dead = false;
    let mut dones = 0usize;
    for st in steps {
        // a caller stops offering bundles once the builder says Done; random histories go on a little longer
        if dones > after_done {
            break;
        }
        let refs: Vec<&SpendBundle> = st.batch.iter().map(|i| &arena[*i].bundle).collect();
        let truthful: u64 = st.batch.iter().map(|i| arena[*i].truthful).sum();
        let est = builder.cost();
        // the estimate after accepting this batch for free, measured on a twin with the same history
        let needs_base = st.label.starts_with("fit") || st.label.starts_with("near");
        let base = if needs_base {
            guarded(|| {
                let mut t = AnyBuilder::new(kind, c);
                for (b, d) in &attempts {
                    let rf: Vec<&SpendBundle> = b.iter().map(|i| &arena[*i].bundle).collect();
                    t.add(&rf, *d, c)?;
                }
                let (added, _) = t.add(&refs, 0, c)?;
                Ok(if added { Some(t.cost()) } else { None })
            })
            .unwrap_or(None)
        } else {
            None
        };
        let (declared, used) = declared_for(&st.label, truthful, est, base, c, THR, r);
        let res = guarded(|| builder.add(&refs, declared, c));
        let mut spends = Vec::new();
        for i in &st.batch {
            spends.extend(arena[*i].spends.iter().cloned());
        }
        let mut ev = json!({"k": "add", "n": spends.len(), "plain": num(st.batch.iter().map(|i| arena[*i].plain).sum()),
            "iso": num(st.batch.iter().map(|i| arena[*i].iso).sum()), "spends": spends,
            "sigs": st.batch.iter().map(|i| arena[*i].id.clone()).collect::<Vec<_>>(),
            "classes": st.batch.iter().map(|i| arena[*i].class.clone()).collect::<Vec<_>>(),
            "declared": num(declared), "truthful": num(truthful), "lbl": used, "want": st.want});
        match res {
            Ok((added, done)) => {
                let cost_after = builder.cost();
                ev["res"] = json!("ok");
                ev["added"] = json!(added);
                ev["done"] = json!(done);
                ev["cost_after"] = num(cost_after);
                // which exit was that (statistics only; the verdict is the specification's)
                let exit = if added { "accept" } else if est + THR > c.max_block_cost_clvm { "full" } else if est + declared > c.max_block_cost_clvm { "declared" } else { "after" };
                ev["exit"] = json!(exit);
                *stats.exits.entry(format!("{}:{}:{}", kind.name(), exit, used)).or_insert(0) += 1;
                if !st.want.is_empty() {
                    if st.want == exit { stats.hit += 1 } else { stats.miss += 1 }
                }
                attempts.push((st.batch.clone(), declared));
                if exit == "accept" || exit == "after" {
                    reached_ix.extend(st.batch.iter().copied());
                }
                if done {
                    dones += 1;
                }
                if added {
                    accepted.push((st.batch.clone(), declared));
                    block_cost += declared;
                }
                out.emit(&ev);
            }
            Err(e) => {
                ev["res"] = json!(e);
                ev["added"] = json!(false);
                ev["done"] = json!(false);
                ev["cost_after"] = json!(-1);
                out.emit(&ev);
                dead = true;
                break;
            }
        }
    }
    let _ = block_cost;
    if dead {
        return;
    }
    // finalize
    let est = builder.cost();
    let fin = guarded(|| builder.finalize(c));
    let mut ev = json!({"k": "finalize", "est": num(est)});
    let acc_ix: Vec<usize> = accepted.iter().flat_map(|(b, _)| b.iter().copied()).collect();
    let all_synth = acc_ix.iter().all(|i| arena[*i].synthetic);
    ev["all_synth"] = json!(all_synth);
    ev["rejected_attempts"] = json!(attempts.len() - accepted.len());
    ev["accepted_attempts"] = json!(accepted.len());
    match fin {
        Err(e) => {
            ev["res"] = json!(e);
            out.emit(&ev);
        }
        Ok((generator, sig, cost)) => {
            ev["res"] = json!("ok");
            ev["generator_len"] = num(generator.len() as u64);
            ev["cost"] = num(cost);
            let (shape, spends, tree) = decode_generator(&generator);
            ev["shape"] = json!(shape);
            ev["spends"] = json!(spends);
            ev["exact"] = match (kind, &tree) {
                (Kind::Compressed, _) => num(generator.len() as u64),
                (Kind::Interned, Some(t)) => num(interned_vbytes_sx(t)),
                (Kind::Interned, None) => json!(-1),
            };
            // signature: which offered bundles does it aggregate? Candidates (raw blst sums): the batches reported as
            // added; those plus every batch that reached the serializer; every batch offered. The specification
            // compares the ids with its own signature bag.
            let ids_of = |ix: &[usize]| -> Vec<String> { ix.iter().map(|i| arena[*i].id.clone()).collect() };
            let sum_of = |ix: &[usize]| blst_sum(&ix.iter().map(|i| arena[*i].sig).collect::<Vec<_>>());
            let all_ix: Vec<usize> = attempts.iter().flat_map(|(b, _)| b.iter().copied()).collect();
            let sigb = sig.to_bytes();
            ev["sig_eq_added"] = json!(sum_of(&acc_ix).is_some_and(|s| s == sigb));
            ev["sig_ids"] = if sum_of(&acc_ix).is_some_and(|s| s == sigb) {
                json!(ids_of(&acc_ix))
            } else if sum_of(&reached_ix).is_some_and(|s| s == sigb) {
                json!(ids_of(&reached_ix))
            } else if sum_of(&all_ix).is_some_and(|s| s == sigb) {
                json!(ids_of(&all_ix))
            } else {
                json!(["?"])
            };
            ev["sig_verify"] = if all_synth {
                let pairs: Vec<(PublicKey, Vec<u8>)> = acc_ix.iter().flat_map(|i| arena[*i].pkm.iter().cloned()).collect();
                let ok = catch(std::panic::AssertUnwindSafe(|| chia_bls::aggregate_verify(&sig, pairs.iter().map(|(p, m)| (p, m.as_slice()))))).unwrap_or(false);
                json!(if ok { "ok" } else { "bad" })
            } else {
                json!("na")
            };
            // consensus: what run_block_generator2 charges for (and finds in) this generator
            let mut flags = if all_synth { ConsensusFlags::empty() } else { ConsensusFlags::DONT_VALIDATE_SIGNATURE };
            if kind == Kind::Interned {
                flags |= ConsensusFlags::INTERNED_GENERATOR;
            }
            let rb = catch(std::panic::AssertUnwindSafe(|| run_block_generator2(&generator, Vec::<Vec<u8>>::new(), BLOCK_MAX, flags, &sig, None, c)));
            ev["rbg2"] = match rb {
                Ok(Ok((a, conds))) => {
                    let coins: Vec<Value> = conds.spends.iter().map(|s| json!({"p": hex::encode(a.atom(s.parent_id).as_ref()), "ph": hex::encode(a.atom(s.puzzle_hash).as_ref()),
                        "amt": hex::encode(enc_uint(s.coin_amount as u128))})).collect();
                    json!({"ok": true, "cost": num(conds.cost), "coins": coins, "sigchecked": all_synth})
                }
                Ok(Err(e)) => json!({"ok": false, "err": format!("{e:?}")}),
                Err(p) => json!({"ok": false, "err": format!("PANIC {p}")}),
            };
            // a twin builder that only sees the accepted attempts must produce the same output
            let twin = guarded(|| {
                let mut t = AnyBuilder::new(kind, c);
                for (b, d) in &accepted {
                    let rf: Vec<&SpendBundle> = b.iter().map(|i| &arena[*i].bundle).collect();
                    let (added, _) = t.add(&rf, *d, c)?;
                    if !added {
                        return Err("twin rejected an accepted attempt".to_string());
                    }
                }
                t.finalize(c)
            });
            ev["twin"] = match twin {
                Ok((g2, s2, c2)) => {
                    let (_, sp2, _) = decode_generator(&g2);
                    json!({"ran": true, "spends_equal": sp2 == spends, "sig_equal": s2.to_bytes() == sig.to_bytes(), "cost_equal": c2 == cost, "gen_equal": g2 == generator, "cost": num(c2), "generator_len": g2.len(),
                           "rejected_between": attempts.len() - accepted.len()})
                }
                Err(e) => json!({"ran": false, "err": e}),
            };
            stats.finalized += 1;
            if attempts.len() > accepted.len() && !accepted.is_empty() {
                stats.mixed += 1;
            }
            out.emit(&ev);
        }
    }
}

#[derive(Default)]
pub struct Stats {
    pub histories: u64,
    pub finalized: u64,
    pub mixed: u64,
    pub hit: u64,
    pub miss: u64,
    pub exits: std::collections::BTreeMap<String, u64>,
}

const LABELS: [&str; 12] = ["zero", "truthful", "huge", "pre-1", "pre0", "pre+1", "fit-1", "fit0", "fit+1", "near0", "near+1", "random"];

pub fn record(args: &Args) {
    let seed = args.u64("seed", 1);
    let mut r = rng(seed);
    let mut out = Out::create(args.req("out"));
    let mut consts = TEST_CONSTANTS.clone();
    consts.max_block_cost_clvm = args.u64("max", 100_000_000);
    consts.cost_per_byte = args.u64("cpb", consts.cost_per_byte);
    assert!(consts.max_block_cost_clvm <= 200_000_000, "keep all numbers below 2^31");
    let mut maker = Maker::new(&mut r, &consts);
    let mut stats = Stats::default();
    // R: histories enumerated by TLC (MC_BlockBuilder), scaled up: every abstract bundle becomes a fresh real
    // bundle of its class, every declared cost is recomputed from its menu label on the real state
    if let Some(cases) = args.get("cases") {
        for cse in read_ndjson(cases) {
            let kind = if cse["kind"].as_str() == Some("interned") { Kind::Interned } else { Kind::Compressed };
            let mut arena: Vec<PB> = Vec::new();
            let mut steps = Vec::new();
            for s in cse["steps"].as_array().cloned().unwrap_or_default() {
                let mut batch = Vec::new();
                for cl in s["b"].as_array().cloned().unwrap_or_default() {
                    let name = cl.as_str().unwrap_or("A");
                    // replay files name test bundles by the start of their file name ("t83bc105442")
                    let from_file = match (name.strip_prefix('t'), args.get("bundles")) {
                        (Some(stem), Some(dir)) if stem.len() >= 8 => load_named_bundle(dir, stem, &consts),
                        _ => None,
                    };
                    arena.push(match from_file {
                        Some(pb) => pb,
                        None => maker.synthetic(&mut r, name),
                    });
                    batch.push(arena.len() - 1);
                }
                steps.push(Step { batch, label: s["lbl"].as_str().unwrap_or("truthful").to_string(), want: s["exit"].as_str().unwrap_or("").to_string() });
            }
            run_history(&mut out, kind, &consts, &arena, &steps, "mc", &mut r, &mut stats, usize::MAX);
        }
    }
    // T: seeded random histories over synthetic bundles and the repository's test bundles
    let nh = args.u64("hist", 0);
    let maxlen = args.u64("len", 10) as usize;
    let tb = match args.get("bundles") {
        Some(dir) if nh > 0 => load_test_bundles(dir, &consts, consts.max_block_cost_clvm / 2, args.u64("max-bundles", 40) as usize),
        _ => vec![],
    };
    let ntb = tb.len();
    let mut base_arena: Vec<PB> = tb;
    for h in 0..nh {
        let kind = if h % 2 == 0 { Kind::Compressed } else { Kind::Interned };
        // the arena of a history: the test bundles (shared) followed by this history's synthetic bundles
        base_arena.truncate(ntb);
        let mut steps = Vec::new();
        let len = if h % 7 == 0 { r.random_range(0..3) } else { r.random_range(0..=maxlen) };
        let mut offered: Vec<usize> = Vec::new();
        let mut tb_used: HashSet<usize> = HashSet::new();
        let style = r.random_range(0..5); // 0: truthful only, 1: mostly truthful, 2/3: frontier heavy, 4: mostly rejected (skip counter)
        for _ in 0..len {
            let bs = match r.random_range(0..10) { 0 => 0, 1 | 2 => 2, _ => 1 };
            let mut batch = Vec::new();
            for _ in 0..bs {
                let pick = r.random_range(0..10);
                if pick < 2 && ntb > 0 {
                    let i = r.random_range(0..ntb);
                    if tb_used.insert(i) {
                        batch.push(i);
                        continue;
                    }
                }
                if pick == 2 && !offered.is_empty() {
                    // offer an earlier synthetic bundle again (it is skipped below if it was accepted meanwhile)
                    let i = offered[r.random_range(0..offered.len())];
                    if !batch.contains(&i) {
                        batch.push(i);
                        continue;
                    }
                }
                let class = ["A", "A", "B", "B", "C", "D", "E"][r.random_range(0..7usize)];
                base_arena.push(maker.synthetic(&mut r, class));
                batch.push(base_arena.len() - 1);
                offered.push(base_arena.len() - 1);
            }
            let label = match style {
                0 => "truthful",
                1 => if r.random_range(0..4) == 0 { LABELS[r.random_range(0..LABELS.len())] } else { "truthful" },
                4 => ["pre+1", "fit+1", "huge", "fit+1", "pre+1", "truthful", "zero"][r.random_range(0..7usize)],
                _ => LABELS[r.random_range(0..LABELS.len())],
            };
            steps.push(Step { batch, label: label.to_string(), want: String::new() });
        }
        // a bundle may be offered again only while it has not been accepted: resolve that while running
        run_history_no_double(&mut out, kind, &consts, &base_arena, steps, &mut r, &mut stats);
    }
    let n = out.finish();
    println!("{}", json!({"events": n, "histories": stats.histories, "finalized": stats.finalized, "mixed": stats.mixed,
        "hit": stats.hit, "miss": stats.miss, "exits": stats.exits, "test_bundles": ntb}));
}

/// random histories may offer a bundle twice; offering one that was already accepted would build a block
/// that spends a coin twice (consensus rejects it, so CostIsConsensus could not be evaluated). Such
/// re-offers are dropped from the batch by a dry run on a scratch builder with the same decisions.
fn run_history_no_double(out: &mut Out, kind: Kind, consts: &ConsensusConstants, arena: &[PB], steps: Vec<Step>, r: &mut StdRng, stats: &mut Stats) {
    // The decisions are only known while running, so run on a scratch file first with a cloned RNG to learn which
    // attempts were accepted, then filter and run for real with the same RNG state.
    let mut steps = steps;
    loop {
        let tmp = format!("/tmp/builder-scratch-{}.ndjson", std::process::id());
        let mut scratch = Out::create(&tmp);
        let mut r2 = r.clone();
        let mut st2 = Stats::default();
        run_history(&mut scratch, kind, consts, arena, &steps, "scratch", &mut r2, &mut st2, 2);
        scratch.finish();
        let evs = read_ndjson(&tmp);
        let _ = std::fs::remove_file(&tmp);
        let mut accepted: HashSet<usize> = HashSet::new();
        let mut changed = false;
        let adds: Vec<&Value> = evs.iter().filter(|e| e["k"] == "add").collect();
        for (i, st) in steps.iter_mut().enumerate() {
            let before = st.batch.len();
            st.batch.retain(|b| !accepted.contains(b));
            if st.batch.len() != before {
                changed = true;
                break;
            }
            if let Some(e) = adds.get(i) {
                if e["added"].as_bool() == Some(true) {
                    accepted.extend(st.batch.iter().copied());
                }
            }
        }
        if !changed {
            break;
        }
    }
    run_history(out, kind, consts, arena, &steps, "random", r, stats, 2);
}
