//! growth item X09: SEND_MESSAGE / RECEIVE_MESSAGE matching through the REAL parser
//! (chia_consensus::conditions::parse_spends). Bundles come from TLC (--cases: the finished
//! behaviours of spec/mc/MC_Messages.tla) and from a seeded generator (many messages, large
//! multiplicities of one key). Only what happened is recorded (verdict + error name); the
//! judgement is made by spec/trace/Trace_Messages.tla with the standalone machine.
use crate::sx::*;
use crate::util::*;
use chia_bls::Signature;
use chia_consensus::conditions::{parse_spends, EmptyVisitor, MempoolVisitor};
use chia_consensus::consensus_constants::TEST_CONSTANTS;
use chia_consensus::flags::ConsensusFlags;
use chia_consensus::validation_error::ValidationErr;
use clvmr::Allocator;
use rand::rngs::StdRng;
use rand::seq::SliceRandom;
use rand::Rng;
use serde_json::json;

#[derive(Clone)]
struct Spend {
    parent: Vec<u8>,
    ph: Vec<u8>,
    amt: u64,
}

#[derive(Clone)]
struct Cond {
    sp: usize, // 1-based spend index
    op: u8,
    args: Sx, // everything after the opcode
}

fn run(tree: &Sx, flags: ConsensusFlags, mempool: bool) -> (bool, String) {
    let res = catch(std::panic::AssertUnwindSafe(|| {
        let mut a = Allocator::new();
        let n = tree.to_node(&mut a);
        let sig = Signature::default();
        let r = if mempool {
            parse_spends::<MempoolVisitor>(&a, n, 11_000_000_000, 0, flags, &sig, None, &TEST_CONSTANTS).map(|_| ())
        } else {
            parse_spends::<EmptyVisitor>(&a, n, 11_000_000_000, 0, flags, &sig, None, &TEST_CONSTANTS).map(|_| ())
        };
        match r {
            Ok(()) => (true, String::new()),
            Err(ValidationErr::Err(c)) => (false, format!("{c:?}")),
            Err(e) => (false, format!("{e:?}")),
        }
    }));
    match res {
        Ok(v) => v,
        Err(p) => (false, format!("PANIC: {p}")),
    }
}

/// build the generator-output tree, run the real parser, emit one event. `conds` is regrouped by spend
/// (stable), which is the order the parser sees and the order that is logged.
fn bundle_event(out: &mut Out, spends: &[Spend], conds: &[Cond], strict: bool, cc: bool, mempool: bool, src: &str) -> bool {
    let mut ordered: Vec<Cond> = Vec::with_capacity(conds.len());
    let mut sp_items = Vec::new();
    for (i, s) in spends.iter().enumerate() {
        let mine: Vec<&Cond> = conds.iter().filter(|c| c.sp == i + 1).collect();
        let cl: Vec<Sx> = mine.iter().map(|c| Sx::cons(Sx::A(vec![c.op]), c.args.clone())).collect();
        ordered.extend(mine.into_iter().cloned());
        sp_items.push(Sx::list(vec![Sx::A(s.parent.clone()), Sx::A(s.ph.clone()), Sx::uint(s.amt as u128), Sx::list(cl)]));
    }
    let tree = Sx::list(vec![Sx::list(sp_items)]);
    let mut flags = ConsensusFlags::DONT_VALIDATE_SIGNATURE;
    if strict {
        flags |= ConsensusFlags::STRICT_ARGS_COUNT;
    }
    if cc {
        flags |= ConsensusFlags::COST_CONDITIONS;
    }
    let (ok, err) = run(&tree, flags, mempool);
    out.emit(&json!({
        "k": "bundle", "src": src, "strict": strict, "cc": cc, "vis": if mempool { "mempool" } else { "empty" },
        "spends": spends.iter().map(|s| json!({"parent": jbytes(&s.parent), "ph": jbytes(&s.ph), "amt": bignat_u64(s.amt)})).collect::<Vec<_>>(),
        "conds": ordered.iter().map(|c| json!({"sp": c.sp, "op": c.op, "args": c.args.to_jsonf()})).collect::<Vec<_>>(),
        "ok": ok, "err": err,
    }));
    ok
}

fn id_args(mode: u8, s: &Spend) -> Vec<Sx> {
    if mode == 7 {
        return vec![Sx::A(sha256(&[&s.parent, &s.ph, &enc_uint(s.amt as u128)]))];
    }
    let mut v = Vec::new();
    if mode & 4 != 0 {
        v.push(Sx::A(s.parent.clone()));
    }
    if mode & 2 != 0 {
        v.push(Sx::A(s.ph.clone()));
    }
    if mode & 1 != 0 {
        v.push(Sx::uint(s.amt as u128));
    }
    v
}

fn msg_cond(sp: usize, op: u8, mode: u8, msg: &[u8], other: &Spend) -> Cond {
    let om = if op == 66 { mode & 7 } else { mode >> 3 };
    let mut items = vec![Sx::uint(mode as u128), Sx::A(msg.to_vec())];
    items.extend(id_args(om, other));
    Cond { sp, op, args: Sx::list(items) }
}

const AMTS: [u64; 10] = [0, 1, 0x7f, 0x80, 200, 0xff, 0x100, 0x8000, 0xffff_ffff, u64::MAX];
const MULTS: [usize; 12] = [1, 1, 2, 3, 5, 127, 128, 129, 255, 256, 257, 300];

fn gen_spends(r: &mut StdRng, n: usize) -> Vec<Spend> {
    // small pools: spends share parents / puzzle hashes / amounts, so partial commitments are ambiguous
    let hp: Vec<Vec<u8>> = (0..3).map(|_| rand_bytes(r, 32)).collect();
    let mut v: Vec<Spend> = Vec::new();
    let mut ids: Vec<Vec<u8>> = Vec::new();
    while v.len() < n {
        let s = Spend { parent: hp[r.random_range(0..2)].clone(), ph: hp[r.random_range(1..3)].clone(), amt: AMTS[r.random_range(0..AMTS.len())] };
        let id = sha256(&[&s.parent, &s.ph, &enc_uint(s.amt as u128)]);
        if !ids.contains(&id) {
            ids.push(id);
            v.push(s);
        }
    }
    v
}

/// deform one condition's argument list (wrong counts, wrong lengths, non-canonical integers, bad modes)
fn deform(r: &mut StdRng, c: &mut Cond) -> &'static str {
    let mut items: Vec<Sx> = Vec::new();
    let mut cur = c.args.clone();
    while let Sx::P(l, rr) = cur {
        items.push(*l);
        cur = *rr;
    }
    let k = r.random_range(0..12);
    let name = match k {
        0 if items.len() > 2 => {
            items.pop();
            "missing"
        }
        1 => {
            items.push(Sx::A(vec![9]));
            "extra"
        }
        2 if items.len() > 2 => {
            let i = r.random_range(2..items.len());
            if let Sx::A(b) = &mut items[i] {
                b.push(0);
            }
            "longer"
        }
        3 if items.len() > 2 => {
            let i = r.random_range(2..items.len());
            if let Sx::A(b) = &mut items[i] {
                b.pop();
            }
            "shorter"
        }
        4 if items.len() > 2 => {
            let i = items.len() - 1;
            if let Sx::A(b) = &mut items[i] {
                b.insert(0, 0);
            }
            "leading-zero"
        }
        5 => {
            if let Sx::A(b) = &mut items[0] {
                *b = vec![r.random_range(64..=255u8)];
            }
            "mode-range"
        }
        6 => {
            if let Sx::A(b) = &mut items[0] {
                b.insert(0, 0);
            }
            "mode-noncanonical"
        }
        7 => {
            items[1] = Sx::A(vec![7u8; 1025]);
            "msg-long"
        }
        8 if items.len() > 2 => {
            let i = r.random_range(2..items.len());
            items[i] = Sx::cons(items[i].clone(), Sx::nil());
            "arg-pair"
        }
        9 => {
            c.args = Sx::list_tail(items.clone(), Sx::A(vec![1]));
            return "tail";
        }
        10 => {
            // another legal mode with the same arguments
            items[0] = Sx::uint(r.random_range(0..64u32) as u128);
            "mode-swap"
        }
        _ => {
            items[1] = Sx::A(vec![0xee]);
            "msg-other"
        }
    };
    c.args = Sx::list(items);
    name
}

fn gen_random(r: &mut StdRng, out: &mut Out, heavy: bool) {
    let n = r.random_range(1..=4usize);
    let spends = gen_spends(r, n);
    let msgs: Vec<Vec<u8>> = vec![vec![], vec![1], vec![1, 2, 3], rand_bytes(r, 32), vec![0x55; 1024]];
    let mut conds: Vec<Cond> = Vec::new();
    let groups = if heavy { r.random_range(1..=2) } else { r.random_range(1..=5) };
    // few modes per bundle so that keys collide or nearly collide
    let modes: Vec<u8> = (0..2).map(|_| r.random_range(0..64u32) as u8).collect();
    for _ in 0..groups {
        let i = r.random_range(0..n);
        let j = r.random_range(0..n);
        let mode = if r.random_range(0..4) == 0 { r.random_range(0..64u32) as u8 } else { modes[r.random_range(0..2)] };
        let msg = &msgs[if heavy { r.random_range(0..3) } else { r.random_range(0..msgs.len()) }];
        let mult = if heavy { MULTS[r.random_range(5..MULTS.len())] } else { MULTS[r.random_range(0..5)] };
        // balance: equal, off by one, or off by a power of two (a narrow counter would wrap to zero)
        let recv = match r.random_range(0..8) {
            0 => mult + 1,
            1 => mult - 1,
            2 if heavy && mult >= 256 => mult - 256,
            3 if heavy && mult >= 128 => mult - 128,
            4 if heavy => mult + 256,
            _ => mult,
        };
        for _ in 0..mult {
            conds.push(msg_cond(i + 1, 66, mode, msg, &spends[j]));
        }
        for _ in 0..recv {
            conds.push(msg_cond(j + 1, 67, mode, msg, &spends[i]));
        }
    }
    let cc = r.random_range(0..3) != 0;
    if !heavy && !conds.is_empty() && r.random_range(0..3) == 0 {
        let i = r.random_range(0..conds.len());
        deform(r, &mut conds[i]);
    }
    conds.shuffle(r);
    let strict = r.random::<bool>();
    let mempool = r.random::<bool>();
    bundle_event(out, &spends, &conds, strict, cc, mempool, if heavy { "heavy" } else { "rand" });
}

/// the pre-COST_CONDITIONS limit of 1024 message-class conditions per spend, at the boundary
fn limit_cases(out: &mut Out) {
    let sp = vec![Spend { parent: vec![1; 32], ph: vec![2; 32], amt: 5 }, Spend { parent: vec![3; 32], ph: vec![2; 32], amt: 6 }];
    for (k, extra, cc) in [(512usize, 0, false), (512, 1, false), (513, 0, false), (513, 0, true)] {
        // k self-sends and k self-receives in spend 1 (2k conditions, + `extra` unmatched sends), mode 0b111111
        let mut conds = Vec::new();
        for _ in 0..extra {
            conds.push(msg_cond(1, 66, 63, &[4], &sp[0]));
        }
        for _ in 0..k {
            conds.push(msg_cond(1, 66, 63, &[4], &sp[0]));
            conds.push(msg_cond(1, 67, 63, &[4], &sp[0]));
        }
        bundle_event(out, &sp, &conds, true, cc, false, "limit");
    }
}

pub fn record(args: &Args) {
    let seed = args.u64("seed", 1);
    let mut r = rng(seed);
    let mut out = Out::create(args.req("out"));
    let mut ncase = 0u64;
    let mut naccept = 0u64;
    if let Some(cases) = args.get("cases") {
        let perm_every = args.u64("perm-every", 4);
        for c in read_ndjson(cases) {
            let spends: Vec<Spend> = c["spends"].as_array().map(|a| a.iter().map(|s| Spend {
                parent: from_jbytes(&s["parent"]), ph: from_jbytes(&s["ph"]), amt: bignat_to_u128(&s["amt"]) as u64 }).collect()).unwrap_or_default();
            let conds: Vec<Cond> = c["conds"].as_array().map(|a| a.iter().map(|x| Cond {
                sp: x["sp"].as_u64().unwrap_or(1) as usize, op: x["op"].as_u64().unwrap_or(66) as u8, args: Sx::from_json(&x["args"]) }).collect()).unwrap_or_default();
            let strict = c["strict"].as_bool().unwrap_or(true);
            let cc = c["cc"].as_bool().unwrap_or(true);
            ncase += 1;
            if bundle_event(&mut out, &spends, &conds, strict, cc, ncase % 2 == 0, "case") {
                naccept += 1;
            }
            if perm_every > 0 && ncase % perm_every == 0 {
                // the same bundle with the spends reversed and the conditions shuffled
                let n = spends.len();
                let rs: Vec<Spend> = spends.iter().rev().cloned().collect();
                let mut rc: Vec<Cond> = conds.iter().map(|x| Cond { sp: n + 1 - x.sp, op: x.op, args: x.args.clone() }).collect();
                rc.shuffle(&mut r);
                bundle_event(&mut out, &rs, &rc, strict, cc, ncase % 2 == 1, "perm");
            }
        }
    }
    for _ in 0..args.u64("n", 0) {
        gen_random(&mut r, &mut out, false);
    }
    for _ in 0..args.u64("heavy", 0) {
        gen_random(&mut r, &mut out, true);
    }
    if args.u64("limit", 0) > 0 {
        limit_cases(&mut out);
    }
    let n = out.finish();
    println!("{}", json!({"events": n, "cases": ncase, "case_accepted": naccept}));
}
