//! C03: parse_spends followed by check_time_locks (nowrap) over chain states.
use crate::conditions::*;
use crate::sx::*;
use crate::util::*;
use chia_bls::Signature;
use chia_consensus::check_time_locks::check_time_locks;
use chia_consensus::conditions::{parse_spends, EmptyVisitor};
use chia_consensus::flags::ConsensusFlags;
use chia_consensus::owned_conditions::OwnedSpendBundleConditions;
use chia_protocol::{Bytes32, Coin, CoinRecord};
use clvmr::Allocator;
use rand::rngs::StdRng;
use rand::Rng;
use serde_json::{json, Value};
use std::collections::HashMap;

const H32MAX: u64 = 0xffff_ffff;

struct Chain {
    prev: u32,
    ts: u64,
    births: Vec<(u32, u64)>,
}

fn lock_args(tree: &Sx, out: &mut Vec<u128>) {
    // all small non-negative integer atoms that occur in the tree (candidate boundaries)
    let mut stack = vec![tree];
    while let Some(x) = stack.pop() {
        match x {
            Sx::A(b) => {
                if b.len() <= 9 && (b.is_empty() || b[0] & 0x80 == 0) {
                    let mut v: u128 = 0;
                    for y in b {
                        v = (v << 8) | *y as u128;
                    }
                    if !out.contains(&v) {
                        out.push(v);
                    }
                }
            }
            Sx::P(l, r) => {
                stack.push(l);
                stack.push(r);
            }
        }
    }
}

fn chains_for(tree: &Sx, nspends: usize, r: &mut StdRng, count: usize) -> Vec<Chain> {
    let mut args = Vec::new();
    lock_args(tree, &mut args);
    let mut out = Vec::new();
    for _ in 0..count {
        // consistent chain states near the boundaries birth + arg +- 1, inside prev <= MAX - 1
        let mut births = Vec::new();
        let bh0: u64 = *[0u64, 1, 2, 100, H32MAX - 2, H32MAX - 1, r.random_range(0..1000)].get(r.random_range(0..7usize)).unwrap();
        let bs0: u64 = *[0u64, 1, 2, 1_000_000, u64::MAX - 2, u64::MAX - 1, r.random_range(0..100000)].get(r.random_range(0..7usize)).unwrap();
        let a = if args.is_empty() { 0 } else { args[r.random_range(0..args.len())] };
        let d: i128 = r.random_range(-2..=2);
        let prev_c = (bh0 as i128 + a as i128 + d).clamp(0, (H32MAX - 1) as i128) as u64;
        let ts_c = (bs0 as i128 + a as i128 + d).clamp(0, (u64::MAX - 1) as i128) as u64;
        let prev = if r.random_range(0..4) == 0 { r.random_range(0..H32MAX) } else { prev_c };
        let ts = if r.random_range(0..4) == 0 { r.random::<u64>() >> r.random_range(0..64u32) } else { ts_c };
        let ts = ts.min(u64::MAX - 1);
        for i in 0..nspends {
            let (h, s) = if i == 0 || r.random::<bool>() { (bh0, bs0) } else { (r.random_range(0..=prev), r.random_range(0..=ts)) };
            births.push((h.min(prev) as u32, s.min(ts)));
        }
        out.push(Chain { prev: prev as u32, ts, births });
    }
    out
}

fn event(tree: &Sx, r: &mut StdRng, nchains: usize, consts: &Consts) -> Value {
    let mut a = Allocator::new();
    let n = tree.to_node(&mut a);
    let sig = Signature::default();
    let flags = ConsensusFlags::DONT_VALIDATE_SIGNATURE;
    let parsed = catch(std::panic::AssertUnwindSafe(|| {
        parse_spends::<EmptyVisitor>(&a, n, 11_000_000_000, 0, flags, &sig, None, &consts.c).map(|c| OwnedSpendBundleConditions::from(&a, c))
    }));
    let nspends = match tree {
        Sx::P(l, _) => {
            let mut k = 0;
            let mut cur: &Sx = l;
            while let Sx::P(_, rr) = cur {
                k += 1;
                cur = rr;
            }
            k
        }
        _ => 0,
    };
    let chains = chains_for(tree, nspends, r, nchains);
    let mut cj = Vec::new();
    let (parse_ok, panic) = match &parsed {
        Ok(Ok(_)) => (true, false),
        Ok(Err(_)) => (false, false),
        Err(_) => (false, true),
    };
    for ch in &chains {
        let ok = match &parsed {
            Ok(Ok(o)) => {
                let mut recs: HashMap<Bytes32, CoinRecord> = HashMap::new();
                for (i, s) in o.spends.iter().enumerate() {
                    let (h, t) = ch.births.get(i).copied().unwrap_or((0, 0));
                    recs.insert(s.coin_id, CoinRecord::new(Coin::new(s.parent_id, s.puzzle_hash, s.coin_amount), h, 0, false, t));
                }
                match catch(std::panic::AssertUnwindSafe(|| check_time_locks(&recs, o, ch.prev, ch.ts, true))) {
                    Ok(Ok(())) => json!(true),
                    Ok(Err(_)) => json!(false),
                    Err(_) => json!("panic"),
                }
            }
            _ => json!(false),
        };
        cj.push(json!({"prevH": bignat_u64(ch.prev as u64), "ts": bignat_u64(ch.ts),
            "births": Value::Array(ch.births.iter().map(|(h, s)| json!({"h": bignat_u64(*h as u64), "s": bignat_u64(*s)})).collect()),
            "ok": ok}));
    }
    json!({"k": "tl", "tree": tree.to_jsonf(), "parse_ok": parse_ok, "panic": panic, "chains": cj})
}

fn signed_atom(r: &mut StdRng) -> Sx {
    // canonical encodings of signed integers of 0..10 bytes, biased to boundaries
    let vals: [i128; 14] = [0, 1, 2, 3, 100, -1, -2, -129, 0xffff_fffe, 0xffff_ffff, 0x1_0000_0000, 0xffff_ffff_ffff_fffe, 0xffff_ffff_ffff_ffff, 0x1_0000_0000_0000_0000];
    let v: i128 = match r.random_range(0..4) {
        0 => {
            let bits = r.random_range(0..80u32);
            let m = if bits == 0 { 0 } else { (r.random::<u128>() >> (128 - bits)) as i128 };
            if r.random_range(0..5) == 0 { -m } else { m }
        }
        1 => r.random_range(0..12),
        _ => vals[r.random_range(0..vals.len())],
    };
    let big = num_bigint::BigInt::from(v);
    let b = if v == 0 { vec![] } else { big.to_signed_bytes_be() };
    Sx::A(b)
}

fn random_tree(r: &mut StdRng, hashes: &[Vec<u8>]) -> Sx {
    let n = r.random_range(1..=3usize);
    let mut spends: Vec<(Vec<u8>, Vec<u8>, u128, Vec<Sx>)> = Vec::new();
    for i in 0..n {
        let (parent, ph, amt) = if i > 0 && r.random_range(0..3) == 0 {
            let j = r.random_range(0..i);
            let pid = sha256(&[&spends[j].0, &spends[j].1, &enc_uint(spends[j].2)]);
            let ph = hashes[r.random_range(0..hashes.len())].clone();
            let amt = 7u128 + i as u128;
            if r.random_range(0..5) != 0 {
                spends[j].3.push(Sx::list(vec![Sx::A(vec![51]), Sx::A(ph.clone()), Sx::uint(amt)]));
            }
            (pid, ph, amt)
        } else {
            (hashes[i].clone(), hashes[r.random_range(0..hashes.len())].clone(), 1000 + i as u128)
        };
        spends.push((parent, ph, amt, vec![]));
    }
    let ops = [74u8, 75, 80, 81, 82, 83, 84, 85, 86, 87];
    for s in &mut spends {
        let k = r.random_range(0..=4usize);
        for _ in 0..k {
            let op = ops[r.random_range(0..ops.len())];
            s.3.push(Sx::list(vec![Sx::A(vec![op]), signed_atom(r)]));
        }
        if r.random_range(0..6) == 0 {
            s.3.push(Sx::list(vec![Sx::A(vec![1])]));
        }
    }
    Sx::list(vec![Sx::list(
        spends.into_iter().map(|(p, z, a, c)| Sx::list(vec![Sx::A(p), Sx::A(z), Sx::uint(a), Sx::list(c)])).collect(),
    )])
}

pub fn record(args: &Args) {
    let seed = args.u64("seed", 1);
    let mut r = rng(seed);
    let mut out = Out::create(args.req("out"));
    let consts = Consts::random(&mut r);
    let nchains = args.u64("chains", 8) as usize;
    if let Some(cases) = args.get("cases") {
        for c in read_ndjson(cases) {
            let tree = Sx::from_json(&c["tree"]);
            out.emit(&event(&tree, &mut r, nchains, &consts));
        }
    }
    let hashes: Vec<Vec<u8>> = (0..5).map(|_| rand_bytes(&mut r, 32)).collect();
    for _ in 0..args.u64("n", 0) {
        let tree = random_tree(&mut r, &hashes);
        out.emit(&event(&tree, &mut r, nchains, &consts));
    }
    let n = out.finish();
    println!("{}", json!({"events": n}));
}
