//! C05: signature acceptance binds each AGG_SIG condition to its domain-separated text.
//! The harness signs a list of (key, message) pairs with its own secret keys and logs exactly
//! what it signed; the specification decides whether that bag is the required one.
use crate::bundle::*;
use crate::conditions::*;
use crate::generator::*;
use crate::sx::*;
use crate::util::*;
use chia_bls::{aggregate, sign, BlsCache, SecretKey, Signature};
use chia_consensus::conditions::{parse_spends, EmptyVisitor};
use chia_consensus::flags::ConsensusFlags;
use chia_consensus::make_aggsig_final_message::make_aggsig_final_message;
use chia_consensus::owned_conditions::OwnedSpendBundleConditions;
use chia_consensus::run_block_generator::run_block_generator2;
use chia_consensus::solution_generator::solution_generator;
use chia_consensus::spendbundle_validation::validate_clvm_and_signature;
use clvmr::Allocator;
use rand::rngs::StdRng;
use rand::Rng;
use serde_json::{json, Value};
use std::num::NonZeroUsize;

pub fn sk_small(n: u8) -> SecretKey {
    let mut b = [0u8; 32];
    b[31] = n;
    SecretKey::from_bytes(&b).expect("sk")
}

type Pair = (Vec<u8>, Vec<u8>); // (public key bytes, message)

fn sign_pairs(pairs: &[Pair], keys: &[(Vec<u8>, SecretKey)]) -> Option<Signature> {
    let mut sigs = Vec::new();
    for (pk, m) in pairs {
        let sk = keys.iter().find(|(p, _)| p == pk).map(|(_, s)| s)?;
        sigs.push(sign(sk, m));
    }
    Some(aggregate(&sigs))
}

fn pairs_json(p: &[Pair]) -> Value {
    Value::Array(p.iter().map(|(k, m)| json!({"pk": jbytes(k), "msg": jbytes(m)})).collect())
}

fn pairs_from_json(v: &Value) -> Vec<Pair> {
    v.as_array().map(|a| a.iter().map(|x| (from_jbytes(&x["pk"]), from_jbytes(&x["msg"]))).collect()).unwrap_or_default()
}

/// all verdicts of one signature on one bundle
fn verdicts(spends: &[SpendIn], flags: ConsensusFlags, sig: &Signature, consts: &Consts, warm_pairs: &[Pair]) -> Value {
    // (a) parse_spends on the output-form tree, with and without caches
    let tree_spends: Vec<Sx> = spends
        .iter()
        .map(|s| {
            let res = clvm_oracle(&s.puzzle, &s.solution, flags, 100_000);
            let conds = if res["ok"].as_bool() == Some(true) && res["big"].as_bool() == Some(false) { Sx::from_json(&res["res"]) } else { Sx::A(vec![1]) };
            Sx::list(vec![Sx::A(s.parent.clone()), Sx::A(tree_hash_sx(&s.puzzle)), Sx::uint(s.amount as u128), conds])
        })
        .collect();
    let tree = Sx::list(vec![Sx::list(tree_spends)]);
    let ps = |cache: Option<&BlsCache>| -> Value {
        catch(std::panic::AssertUnwindSafe(|| {
            let mut a = Allocator::new();
            let n = tree.to_node(&mut a);
            match parse_spends::<EmptyVisitor>(&a, n, BLOCK_MAX, 0, flags, sig, cache, &consts.c) {
                Ok(_) => json!(true),
                Err(_) => json!(false),
            }
        }))
        .unwrap_or(json!("panic"))
    };
    let no = ps(None);
    let cold_cache = BlsCache::new(NonZeroUsize::new(64).unwrap());
    let cold = ps(Some(&cold_cache));
    let again = ps(Some(&cold_cache)); // now warm (if the first call verified)
    // a cache pre-warmed by verifying the GOOD signature pairs one by one, then a cache after eviction
    let warm_cache = BlsCache::new(NonZeroUsize::new(2).unwrap());
    for (pk, m) in warm_pairs {
        if let Ok(k) = chia_bls::PublicKey::from_bytes(pk.as_slice().try_into().unwrap_or(&[0u8; 48])) {
            let mut aug = pk.clone();
            aug.extend_from_slice(m);
            let gt = chia_bls::hash_to_g2(&aug).pair(&k);
            warm_cache.update(&aug, gt);
        }
    }
    let warm = ps(Some(&warm_cache));
    // (b) the bundle through validate_clvm_and_signature, (c) a generator through run_block_generator2
    let bundle = make_bundle(spends, sig.clone());
    let mut vcs_r = None;
    let vcs = catch(std::panic::AssertUnwindSafe(|| match validate_clvm_and_signature(&bundle, BLOCK_MAX, &consts.c, flags) {
        Ok((o, _)) => (json!(true), Some(summary_json(&o))),
        Err(_) => (json!(false), None),
    }))
    .map(|(v, r)| {
        vcs_r = r;
        v
    })
    .unwrap_or(json!("panic"));
    let rbg = catch(std::panic::AssertUnwindSafe(|| {
        let g = solution_generator(bundle.coin_spends.iter().map(|c| (c.coin, c.puzzle_reveal.as_ref().to_vec(), c.solution.as_ref().to_vec()))).expect("generator");
        match run_block_generator2(&g, Vec::<Vec<u8>>::new(), BLOCK_MAX, flags, sig, Some(&cold_cache), &consts.c) {
            Ok(_) => json!(true),
            Err(_) => json!(false),
        }
    }))
    .unwrap_or(json!("panic"));
    let mut v = json!({"ps": no, "ps_cold": cold, "ps_again": again, "ps_warm": warm, "vcs": vcs, "rbg2": rbg});
    if let Some(r) = vcs_r {
        v["vcs_r"] = r;
    }
    v
}

/// what make_aggsig_final_message yields for every AGG_SIG condition of the validated summary
fn final_messages(spends: &[SpendIn], flags: ConsensusFlags, consts: &Consts) -> Value {
    let bundle = make_bundle(spends, Signature::default());
    let r = catch(std::panic::AssertUnwindSafe(|| {
        let mut a = Allocator::new();
        let Ok((c, _)) = chia_consensus::spendbundle_conditions::run_spendbundle(&mut a, &bundle, BLOCK_MAX, flags | ConsensusFlags::DONT_VALIDATE_SIGNATURE, &consts.c) else { return json!([]) };
        let o = OwnedSpendBundleConditions::from(&a, c);
        let mut v = Vec::new();
        for s in &o.spends {
            let lists: [(u16, &Vec<(chia_bls::PublicKey, chia_protocol::Bytes)>); 7] = [
                (50, &s.agg_sig_me), (43, &s.agg_sig_parent), (44, &s.agg_sig_puzzle), (45, &s.agg_sig_amount),
                (46, &s.agg_sig_puzzle_amount), (47, &s.agg_sig_parent_amount), (48, &s.agg_sig_parent_puzzle),
            ];
            for (op, l) in lists {
                for (pk, m) in l {
                    let mut msg = m.as_ref().to_vec();
                    make_aggsig_final_message(op, &mut msg, s, &consts.c);
                    v.push(json!({"pk": jbytes(&pk.to_bytes()), "msg": jbytes(&msg)}));
                }
            }
        }
        for (pk, m) in &o.agg_sig_unsafe {
            v.push(json!({"pk": jbytes(&pk.to_bytes()), "msg": jbytes(m.as_ref())}));
        }
        Value::Array(v)
    }));
    r.unwrap_or(json!([]))
}

fn event(spends: &[SpendIn], flag_names: &[String], consts: &Consts, signed: &[Pair], good: &[Pair], kind: &str, keys: &[(Vec<u8>, SecretKey)], sig_override: Option<Signature>) -> Value {
    let flags = gen_flags(flag_names);
    let sig = sig_override.or_else(|| sign_pairs(signed, keys)).unwrap_or_default();
    let runs: Vec<Value> = spends.iter().map(|s| clvm_oracle(&s.puzzle, &s.solution, flags, 4000)).collect();
    let mut vk = Vec::new();
    for r in &runs {
        if r["ok"].as_bool() == Some(true) && r["big"].as_bool() == Some(false) {
            collect_48(&Sx::from_json(&r["res"]), &mut vk);
        }
    }
    json!({"k": "sig", "kind": kind, "flags": flag_names, "consts": consts.to_json(), "cpb": bignat_u64(consts.c.cost_per_byte), "max": bignat_u64(BLOCK_MAX),
        "spends": Value::Array(spends.iter().map(|s| json!({"parent": jbytes(&s.parent), "ph": jbytes(&s.ph), "amt": bignat_u64(s.amount),
            "puzzle": s.puzzle.to_jsonf(), "solution": s.solution.to_jsonf(), "plen": ser_plain(&s.puzzle).len(), "slen": ser_plain(&s.solution).len()})).collect()),
        "runs": runs, "vk": Value::Array(vk.iter().filter(|k| key_valid(k)).map(|k| jbytes(k)).collect()),
        "signed": pairs_json(signed), "wellformed": true,
        "res": verdicts(spends, flags, &sig, consts, good),
        "final": final_messages(spends, flags, consts)})
}

fn tamperings(good: &[Pair], r: &mut StdRng, keys: &[(Vec<u8>, SecretKey)]) -> Vec<(String, Vec<Pair>)> {
    let mut v = Vec::new();
    if good.is_empty() {
        v.push(("extra".to_string(), vec![(keys[0].0.clone(), vec![1, 2, 3])]));
        return v;
    }
    let i = r.random_range(0..good.len());
    let mut drop = good.to_vec();
    drop.remove(i);
    v.push(("drop".to_string(), drop));
    let mut dup = good.to_vec();
    dup.push(good[i].clone());
    v.push(("dup".to_string(), dup));
    let mut flip = good.to_vec();
    if flip[i].1.is_empty() {
        flip[i].1.push(1);
    } else {
        let j = r.random_range(0..flip[i].1.len());
        flip[i].1[j] ^= 1 << r.random_range(0..8u32);
    }
    v.push(("flip".to_string(), flip));
    let mut trunc = good.to_vec();
    trunc[i].1.pop();
    v.push(("trunc".to_string(), trunc));
    let mut key = good.to_vec();
    let other = keys.iter().find(|(p, _)| *p != key[i].0).map(|(p, _)| p.clone()).unwrap();
    key[i].0 = other;
    v.push(("key".to_string(), key));
    let mut extra = good.to_vec();
    extra.push((keys[0].0.clone(), vec![9, 9, 9]));
    v.push(("extra".to_string(), extra));
    v
}

pub fn record(args: &Args) {
    let seed = args.u64("seed", 1);
    let mut r = rng(seed);
    let mut out = Out::create(args.req("out"));
    let consts = Consts::random(&mut r);
    let keys: Vec<(Vec<u8>, SecretKey)> = (1..=3u8).map(|n| (sk_small(n).public_key().to_bytes().to_vec(), sk_small(n))).collect();
    if args.u64("print-keys", 0) == 1 {
        for (p, _) in &keys {
            println!("{:?}", p);
        }
        return;
    }
    // cases from MC_AggSig: {spends, flags, consts, required:[{pk,msg}], tampers:[{kind, signed:[..]}]}
    if let Some(cases) = args.get("cases") {
        for c in read_ndjson(cases) {
            let flags = names_from_json(&c["flags"]);
            let d = &c["consts"];
            let cc = Consts::from_doms([
                from_jbytes(&d["me"]), from_jbytes(&d["parent"]), from_jbytes(&d["puzzle"]), from_jbytes(&d["amount"]),
                from_jbytes(&d["puzzle_amount"]), from_jbytes(&d["parent_amount"]), from_jbytes(&d["parent_puzzle"]),
            ]);
            let spends: Vec<SpendIn> = c["spends"].as_array().map(|a| a.iter().map(|s| {
                let puzzle = Sx::from_json(&s["puzzle"]);
                SpendIn { parent: from_jbytes(&s["parent"]), ph: tree_hash_sx(&puzzle), amount: bignat_to_u128(&s["amt"]) as u64, puzzle, solution: Sx::from_json(&s["solution"]) }
            }).collect()).unwrap_or_default();
            let required = pairs_from_json(&c["required"]);
            out.emit(&event(&spends, &flags, &cc, &required, &required, "required", &keys, None));
            if let Some(ts) = c["tampers"].as_array() {
                for t in ts {
                    let signed = pairs_from_json(&t["signed"]);
                    out.emit(&event(&spends, &flags, &cc, &signed, &required, t["kind"].as_str().unwrap_or("tamper"), &keys, None));
                }
            }
        }
    }
    // random bundles: sign what the CODE says must be signed (run_spendbundle's pairs); the spec judges it
    let pool = PuzzlePool::new(&mut r, 4);
    for _ in 0..args.u64("n", 0) {
        let mut flags: Vec<String> = Vec::new();
        for n in ["COST_CONDITIONS", "NO_UNKNOWN_CONDS", "STRICT_ARGS_COUNT"] {
            if r.random_range(0..3) == 0 {
                flags.push(n.to_string());
            }
        }
        let bundle_tree = {
            let mut g = Gen::new(&mut r, &consts);
            g.clean = true;
            g.keys = keys.iter().map(|(p, _)| p.clone()).collect();
            g.agg_sig_bias = true;
            g.ph_pool = Some(pool.hashes.clone());
            gen_bundle(&mut g, 3, 5)
        };
        let spends = spends_from_output(&bundle_tree, &pool, &mut rng(r.random::<u64>() | 1 << 63));
        let f = gen_flags(&flags);
        let b = make_bundle(&spends, Signature::default());
        let code_pairs: Vec<Pair> = {
            let mut a = Allocator::new();
            match chia_consensus::spendbundle_conditions::run_spendbundle(&mut a, &b, BLOCK_MAX, f, &consts.c) {
                Ok((_, pkm)) => pkm.iter().map(|(pk, m)| (pk.to_bytes().to_vec(), m.as_ref().to_vec())).collect(),
                Err(_) => vec![],
            }
        };
        out.emit(&event(&spends, &flags, &consts, &code_pairs, &code_pairs, "code-pairs", &keys, None));
        for (kind, t) in tamperings(&code_pairs, &mut r, &keys) {
            out.emit(&event(&spends, &flags, &consts, &t, &code_pairs, &kind, &keys, None));
        }
    }
    let n = out.finish();
    println!("{}", json!({"events": n}));
}
