//! X05: CLVM serialisation with back-references. Every decoder / encoder that chia_rs uses is observed
//! on the same byte strings / trees; the TLA+ specification (spec/Backrefs.tla) decides the expected
//! value of every observation in trace validation (Trace_Backrefs.tla). Nothing is compared here.
use crate::sx::*;
use crate::util::*;
use chia_bls::Signature;
use chia_consensus::build_compressed_block::BlockBuilder;
use chia_consensus::consensus_constants::TEST_CONSTANTS;
use chia_consensus::solution_generator::{solution_generator, solution_generator_backrefs};
use chia_protocol::{Bytes32, Coin, CoinSpend, Program, SpendBundle};
use chia_traits::Streamable;
use clvm_traits::ToClvm;
use clvm_utils::tree_hash_from_bytes;
use clvmr::serde::{
    node_from_bytes_backrefs, node_from_bytes_backrefs_old, node_from_stream, node_to_bytes, node_to_bytes_backrefs, Serializer,
};
use clvmr::{Allocator, ClvmFlags};
use rand::rngs::StdRng;
use rand::Rng;
use serde_json::{json, Value};
use std::collections::{HashMap, HashSet};
use std::io::Cursor;
use std::panic::AssertUnwindSafe;

fn nil_tree() -> Value {
    json!({"a": []})
}

/// nesting depth of the flat JSON form (the TLA+ Json module refuses more than 255 levels)
fn jdepth(s: &Sx) -> usize {
    match s {
        Sx::A(_) => 2,
        Sx::P(..) => {
            let mut d = 0;
            let mut cur = s;
            while let Sx::P(l, r) = cur {
                d = d.max(jdepth(l));
                cur = r;
            }
            d + 2
        }
    }
}
const MAX_JDEPTH: usize = 200;

/// result of a decoder returning a node: {"ok","p" (panicked),"v","n"}
fn res_tree(r: Result<Result<(Sx, u64), String>, String>) -> Value {
    match r {
        Err(p) => json!({"ok": false, "p": true, "v": nil_tree(), "n": 0, "msg": p}),
        Ok(Err(_)) => json!({"ok": false, "p": false, "v": nil_tree(), "n": 0}),
        Ok(Ok((t, n))) => json!({"ok": true, "p": false, "v": t.to_jsonf(), "n": n}),
    }
}

fn res_bytes(r: Result<Result<Vec<u8>, String>, String>) -> Value {
    match r {
        Err(p) => json!({"ok": false, "p": true, "b": [], "msg": p}),
        Ok(Err(_)) => json!({"ok": false, "p": false, "b": []}),
        Ok(Ok(b)) => json!({"ok": true, "p": false, "b": jbytes(&b)}),
    }
}

fn res_len(r: Result<Result<(u64, u64), String>, String>) -> Value {
    match r {
        Err(p) => json!({"ok": false, "p": true, "n": 0, "len": 0, "msg": p}),
        Ok(Err(_)) => json!({"ok": false, "p": false, "n": 0, "len": 0}),
        Ok(Ok((n, l))) => json!({"ok": true, "p": false, "n": n, "len": l}),
    }
}

/// one byte string through every decoder
fn ev_dec(b: &[u8], src: &str) -> Option<Value> {
    let br = catch(AssertUnwindSafe(|| {
        let mut a = Allocator::new();
        node_from_bytes_backrefs(&mut a, b).map(|n| (Sx::from_node(&a, n), 0)).map_err(|e| e.to_string())
    }));
    if let Ok(Ok((t, _))) = &br {
        if jdepth(t) > MAX_JDEPTH {
            return None;
        }
    }
    let old = catch(AssertUnwindSafe(|| {
        let mut a = Allocator::new();
        node_from_bytes_backrefs_old(&mut a, b).map(|n| (Sx::from_node(&a, n), 0)).map_err(|e| e.to_string())
    }));
    let plain = catch(AssertUnwindSafe(|| {
        let mut a = Allocator::new();
        let mut c = Cursor::new(b);
        node_from_stream(&mut a, &mut c).map(|n| (Sx::from_node(&a, n), c.position())).map_err(|e| e.to_string())
    }));
    let th = match catch(AssertUnwindSafe(|| tree_hash_from_bytes(b))) {
        Err(p) => json!({"ok": false, "p": true, "h": [], "msg": p}),
        Ok(Err(_)) => json!({"ok": false, "p": false, "h": []}),
        Ok(Ok(h)) => json!({"ok": true, "p": false, "h": jbytes(&h.to_bytes())}),
    };
    let parse = catch(AssertUnwindSafe(|| {
        let mut c = Cursor::new(b);
        <Program as Streamable>::parse::<false>(&mut c).map(|p| (c.position(), p.len() as u64)).map_err(|e| e.to_string())
    }));
    let parse_t = catch(AssertUnwindSafe(|| {
        let mut c = Cursor::new(b);
        <Program as Streamable>::parse::<true>(&mut c).map(|p| (c.position(), p.len() as u64)).map_err(|e| e.to_string())
    }));
    let fb = catch(AssertUnwindSafe(|| Program::from_bytes(b).is_ok()));
    // observation only: Program::to_clvm uses the plain decoder
    let to_clvm = catch(AssertUnwindSafe(|| {
        let p = Program::from(b.to_vec());
        let mut a = Allocator::new();
        p.to_clvm(&mut a).map(|n| (Sx::from_node(&a, n), 0)).map_err(|e| e.to_string())
    }));
    Some(json!({
        "k": "dec", "src": src, "b": jbytes(b),
        "br": res_tree(br), "old": res_tree(old), "plain": res_tree(plain), "th": th,
        "parse": res_len(parse), "parse_t": res_len(parse_t),
        "from_bytes": match fb { Ok(x) => json!({"ok": x, "p": false}), Err(_) => json!({"ok": false, "p": true}) },
        "to_clvm": res_tree(to_clvm),
    }))
}

/// plain serialised length, computed on the model tree
fn ser_len(s: &Sx, memo: &mut HashMap<*const Sx, usize>) -> usize {
    if let Some(v) = memo.get(&(s as *const Sx)) {
        return *v;
    }
    let r = match s {
        Sx::A(b) => {
            let n = b.len();
            if n == 0 || (n == 1 && b[0] < 0x80) {
                1
            } else if n < 0x40 {
                1 + n
            } else if n < 0x2000 {
                2 + n
            } else if n < 0x10_0000 {
                3 + n
            } else {
                5 + n
            }
        }
        Sx::P(l, r) => 1 + ser_len(l, memo) + ser_len(r, memo),
    };
    memo.insert(s as *const Sx, r);
    r
}

/// witness of redundancy: two different positions (step sequences from the root, true = right) of at
/// most 50 steps holding equal subtrees whose plain form has at least 17 bytes. Found with an
/// independent structural fingerprint; the specification re-checks the witness.
fn find_witness(t: &Sx) -> Option<(Vec<bool>, Vec<bool>)> {
    use std::hash::{Hash, Hasher};
    fn depth(s: &Sx) -> usize {
        // iterative on the right spine
        let mut d = 0;
        let mut k = 0;
        let mut cur = s;
        while let Sx::P(l, r) = cur {
            k += 1;
            d = d.max(k + depth(l));
            cur = r;
        }
        d.max(k)
    }
    if depth(t) > 50 {
        return None;
    }
    fn fp(s: &Sx, out: &mut HashMap<*const Sx, u64>) -> u64 {
        let h = match s {
            Sx::A(b) => {
                let mut h = std::collections::hash_map::DefaultHasher::new();
                Hash::hash(&0u8, &mut h);
                Hash::hash(b, &mut h);
                h.finish()
            }
            Sx::P(l, r) => {
                let (x, y) = (fp(l, out), fp(r, out));
                let mut h = std::collections::hash_map::DefaultHasher::new();
                Hash::hash(&1u8, &mut h);
                Hash::hash(&x, &mut h);
                Hash::hash(&y, &mut h);
                h.finish()
            }
        };
        out.insert(s as *const Sx, h);
        h
    }
    let mut fps = HashMap::new();
    fp(t, &mut fps);
    let mut lens = HashMap::new();
    let mut seen: HashMap<u64, Vec<bool>> = HashMap::new();
    // pre-order walk, explicit stack
    let mut stack: Vec<(&Sx, Vec<bool>)> = vec![(t, vec![])];
    while let Some((s, path)) = stack.pop() {
        if path.len() > 50 {
            continue;
        }
        if ser_len(s, &mut lens) >= 17 {
            let f = fps[&(s as *const Sx)];
            if let Some(p1) = seen.get(&f) {
                return Some((p1.clone(), path));
            }
            seen.insert(f, path.clone());
        } else {
            continue;
        }
        if let Sx::P(l, r) = s {
            let mut pr = path.clone();
            pr.push(true);
            stack.push((r, pr));
            let mut pl = path;
            pl.push(false);
            stack.push((l, pl));
        }
    }
    None
}

fn jwit(t: &Sx) -> Value {
    match find_witness(t) {
        None => json!([]),
        Some((p1, p2)) => json!([p1, p2]),
    }
}

/// one tree through every encoder
fn ev_ser(t: &Sx, src: &str) -> Option<Value> {
    if jdepth(t) > MAX_JDEPTH {
        return None;
    }
    let c = catch(AssertUnwindSafe(|| {
        let mut a = Allocator::new();
        let n = t.to_node(&mut a);
        node_to_bytes_backrefs(&a, n).map_err(|e| e.to_string())
    }));
    let p = catch(AssertUnwindSafe(|| {
        let mut a = Allocator::new();
        let n = t.to_node(&mut a);
        node_to_bytes(&a, n).map_err(|e| e.to_string())
    }));
    // the incremental serializer the compressed block builder is made of
    let inc = catch(AssertUnwindSafe(|| {
        let mut a = Allocator::new();
        let n = t.to_node(&mut a);
        let mut s = Serializer::new(None);
        match s.add(&a, n) {
            Err(e) => Err(e.to_string()),
            Ok((done, _)) => {
                if done {
                    Ok(s.into_inner())
                } else {
                    Err("not done".to_string())
                }
            }
        }
    }));
    Some(json!({"k": "ser", "src": src, "t": t.to_jsonf(), "c": res_bytes(c), "p": res_bytes(p), "inc": res_bytes(inc), "wit": jwit(t)}))
}

/// (q . t) compressed and run as a chia-protocol Program: the result is t
fn ev_run(t: &Sx, src: &str) -> Option<Value> {
    if jdepth(t) > MAX_JDEPTH - 4 {
        return None;
    }
    let q = Sx::cons(Sx::atom(&[1]), t.clone());
    let prog = {
        let mut a = Allocator::new();
        let n = q.to_node(&mut a);
        node_to_bytes_backrefs(&a, n).expect("serialize")
    };
    let res = catch(AssertUnwindSafe(|| {
        let mut a = Allocator::new();
        let p = Program::from(prog.clone());
        p.run(&mut a, ClvmFlags::empty(), 11_000_000_000, &()).map(|(_, n)| (Sx::from_node(&a, n), 0)).map_err(|e| e.to_string())
    }));
    Some(json!({"k": "run", "src": src, "t": t.to_jsonf(), "prog": jbytes(&prog), "res": res_tree(res)}))
}

#[derive(Clone)]
struct Sp {
    parent: Vec<u8>,
    ph: Vec<u8>,
    amount: u64,
    puz: Vec<u8>,
    sol: Vec<u8>,
}

/// spends through both generator builders and the compressed block builder
fn ev_gen(spends: &[Sp], src: &str) -> Value {
    let tuples = || {
        spends.iter().map(|s| {
            (
                Coin::new(Bytes32::try_from(s.parent.as_slice()).unwrap(), Bytes32::try_from(s.ph.as_slice()).unwrap(), s.amount),
                s.puz.clone(),
                s.sol.clone(),
            )
        })
    };
    let out = catch(AssertUnwindSafe(|| solution_generator_backrefs(tuples()).map_err(|e| e.to_string())));
    let plain = catch(AssertUnwindSafe(|| solution_generator(tuples()).map_err(|e| e.to_string())));
    let bb = catch(AssertUnwindSafe(|| {
        let css: Vec<CoinSpend> = tuples().map(|(c, p, s)| CoinSpend::new(c, Program::from(p), Program::from(s))).collect();
        let bundle = SpendBundle::new(css, Signature::default());
        let mut b = BlockBuilder::new().map_err(|e| e.to_string())?;
        let (added, _) = b.add_spend_bundles([&bundle], 1000, &TEST_CONSTANTS).map_err(|e| e.to_string())?;
        if !added {
            return Err("not added".to_string());
        }
        b.finalize(&TEST_CONSTANTS).map(|(g, _, _)| g).map_err(|e| e.to_string())
    }));
    let js: Vec<Value> = spends
        .iter()
        .map(|s| json!({"parent": jbytes(&s.parent), "amount": bignat_u64(s.amount), "puz": jbytes(&s.puz), "sol": jbytes(&s.sol)}))
        .collect();
    // the generator tree, built independently, only to search the redundancy witness
    let wit = {
        let mut items = Vec::new();
        let mut ok = true;
        for s in spends.iter().rev() {
            let mut a = Allocator::new();
            let (Ok(p), Ok(q)) = (node_from_bytes_backrefs(&mut a, &s.puz), node_from_bytes_backrefs(&mut a, &s.sol)) else {
                ok = false;
                break;
            };
            items.push(Sx::list(vec![Sx::atom(&s.parent), Sx::from_node(&a, p), Sx::uint(s.amount as u128), Sx::from_node(&a, q)]));
        }
        if ok {
            jwit(&Sx::cons(Sx::atom(&[1]), Sx::list(vec![Sx::list(items)])))
        } else {
            json!([])
        }
    };
    json!({"k": "gen", "src": src, "spends": js, "out": res_bytes(out), "plain": res_bytes(plain), "bb": res_bytes(bb), "wit": wit})
}

// ------------------------------------------------------------------ random inputs
fn rand_atom(r: &mut StdRng) -> Vec<u8> {
    match r.random_range(0..12) {
        0 => vec![],
        1 => vec![1],
        2 => vec![r.random_range(0..0x80)],
        3 => vec![r.random_range(0x80..=0xff)],
        4 => vec![0xfe],
        5 => vec![0xff, 0xfe],
        6 => rand_bytes(r, 32),
        7 => rand_bytes(r, 63),
        8 => rand_bytes(r, 64),
        9 => rand_bytes(r, 48),
        10 => {
            let n = r.random_range(2..20);
            rand_bytes(r, n)
        }
        _ => {
            let n = r.random_range(65..300);
            rand_bytes(r, n)
        }
    }
}

/// tree with heavy repetition: subtrees are drawn again from a growing pool
fn rand_tree(r: &mut StdRng, size: usize) -> Sx {
    let mut pool: Vec<Sx> = (0..r.random_range(2..7)).map(|_| Sx::A(rand_atom(r))).collect();
    let reuse = r.random_range(3..9);
    for _ in 0..size {
        let pick = |r: &mut StdRng, pool: &Vec<Sx>| -> Sx {
            if r.random_range(0..10) < reuse {
                let n = pool.len();
                // recent entries are large: prefer them
                let i = if r.random_range(0..2) == 0 { r.random_range(0..n) } else { n - 1 - r.random_range(0..n.min(4)) };
                pool[i].clone()
            } else {
                Sx::A(rand_atom(r))
            }
        };
        let x = match r.random_range(0..6) {
            0 => {
                let k = r.random_range(1..6);
                let items: Vec<Sx> = (0..k).map(|_| pick(r, &pool)).collect();
                Sx::list(items)
            }
            _ => {
                let l = pick(r, &pool);
                let rr = pick(r, &pool);
                Sx::cons(l, rr)
            }
        };
        pool.push(x);
    }
    pool.pop().unwrap()
}

/// long list of short distinct atoms in which a few short items repeat far apart: deep stack positions,
/// multi-byte paths, back-references that barely pay off
fn far_repeat_tree(r: &mut StdRng) -> Sx {
    let k = r.random_range(10..70);
    let nrep = r.random_range(1..4);
    let reps: Vec<Sx> = (0..nrep)
        .map(|_| match r.random_range(0..4) {
            0 => Sx::A(rand_bytes(r, 3)),
            1 => Sx::A(rand_bytes(r, 4)),
            2 => Sx::cons(Sx::A(vec![r.random_range(2..100)]), Sx::A(rand_bytes(r, 2))),
            _ => {
                let n = r.random_range(5..40);
                Sx::A(rand_bytes(r, n))
            }
        })
        .collect();
    let mut items: Vec<Sx> = (0..k).map(|i| if r.random_range(0..3) == 0 { Sx::A(vec![(i % 120) as u8 + 2]) } else { Sx::A(vec![0x80 | (i as u8), r.random::<u8>()]) }).collect();
    for _ in 0..r.random_range(2..6) {
        let i = r.random_range(0..items.len());
        items[i] = reps[r.random_range(0..reps.len())].clone();
    }
    items[0] = reps[0].clone();
    let last = items.len() - 1;
    items[last] = reps[0].clone();
    if r.random_range(0..3) == 0 {
        // nest the first half one level down
        let tail = items.split_off(items.len() / 2);
        let mut v = vec![Sx::list(items)];
        v.extend(tail);
        Sx::list(v)
    } else {
        Sx::list(items)
    }
}

/// adversarial edits of a valid compressed encoding
fn mutate(r: &mut StdRng, b: &[u8]) -> Vec<u8> {
    let mut v = b.to_vec();
    if v.is_empty() {
        return vec![0xfe];
    }
    let fes: Vec<usize> = v.iter().enumerate().filter(|(_, x)| **x == 0xfe).map(|(i, _)| i).collect();
    match r.random_range(0..8) {
        0 => {
            let n = r.random_range(0..v.len());
            v.truncate(n);
        }
        1 | 2 if !fes.is_empty() => {
            // change a path byte
            let i = fes[r.random_range(0..fes.len())];
            if i + 1 < v.len() {
                v[i + 1] = match r.random_range(0..4) {
                    0 => v[i + 1].wrapping_add(1),
                    1 => v[i + 1] ^ (1 << r.random_range(0..7)),
                    2 => r.random_range(0..0x80),
                    _ => [0x80, 0x00, 0x01, 0xfe, 0xff, 0x81][r.random_range(0..6)],
                };
            }
        }
        3 => {
            // replace a single-byte atom by a back-reference
            let i = r.random_range(0..v.len());
            let p = [0x01u8, 0x02, 0x03, 0x04, 0x05, 0x06, 0x07, 0x0b, 0x0d, 0x80, 0x00][r.random_range(0..11)];
            v.splice(i..i + 1, [0xfe, p]);
        }
        4 => {
            // back-reference with a long-form path (leading zero byte / explicit length prefix)
            let i = r.random_range(0..v.len());
            let p = r.random_range(1..16u8);
            let alt: Vec<u8> = match r.random_range(0..3) {
                0 => vec![0xfe, 0x82, 0x00, p],
                1 => vec![0xfe, 0x81, p],
                _ => vec![0xfe, 0xc0, 0x01, p],
            };
            v.splice(i..i + 1, alt);
        }
        5 => {
            let i = r.random_range(0..v.len());
            v[i] = [0xff, 0xfe, 0x80, 0x01][r.random_range(0..4)];
        }
        6 => {
            let i = r.random_range(0..v.len());
            v[i] = r.random::<u8>();
        }
        _ => {
            let n = r.random_range(1..4);
            let extra = rand_bytes(r, n);
            v.extend(extra);
        }
    }
    v
}

fn compress(t: &Sx) -> Vec<u8> {
    let mut a = Allocator::new();
    let n = t.to_node(&mut a);
    node_to_bytes_backrefs(&a, n).expect("serialize")
}
fn plain(t: &Sx) -> Vec<u8> {
    let mut a = Allocator::new();
    let n = t.to_node(&mut a);
    node_to_bytes(&a, n).expect("serialize")
}

fn repo_dir() -> String {
    std::env::var("VERIF_REPO").unwrap_or_else(|_| "/repo".to_string())
}

pub fn record(args: &Args) {
    let seed = args.u64("seed", 1);
    let mut r = rng(seed);
    let mut out = Out::create(args.req("out"));
    let max_bytes = args.u64("max-bytes", 4000) as usize;
    let mut skipped_deep = 0usize;
    macro_rules! emit {
        ($e:expr) => {
            match $e {
                Some(v) => out.emit(&v),
                None => skipped_deep += 1,
            }
        };
    }

    // ---- cases generated by TLC (MC_Backrefs): byte strings with the predicted value
    if let Some(cases) = args.get("cases") {
        let all = read_ndjson(cases);
        let stride = args.u64("stride", 1).max(1) as usize;
        let off = (seed as usize) % stride;
        let mut trees: HashSet<Sx> = HashSet::new();
        let mut pool: Vec<Vec<u8>> = Vec::new();
        for (i, c) in all.iter().enumerate() {
            // small cases always, the long tail sampled by the seed
            let b = from_jbytes(&c["b"]);
            if stride > 1 && b.len() > 4 && i % stride != off {
                continue;
            }
            emit!(ev_dec(&b, "tlc"));
            if c["ok"].as_bool() == Some(true) {
                let t = Sx::from_json(&c["v"]);
                if trees.insert(t.clone()) {
                    emit!(ev_ser(&t, "tlc"));
                    emit!(ev_run(&t, "tlc"));
                }
            }
            if c["nbr"].as_u64().unwrap_or(0) > 0 && pool.len() < 4000 {
                pool.push(b);
            }
        }
        // TLC byte strings (valid and invalid compressed forms) as puzzle reveals / solutions of spends
        let ngen = args.u64("tlc-gen", 200) as usize;
        for _ in 0..ngen.min(pool.len()) {
            let k = r.random_range(1..4);
            let spends: Vec<Sp> = (0..k)
                .map(|_| Sp {
                    parent: rand_bytes(&mut r, 32),
                    ph: rand_bytes(&mut r, 32),
                    amount: [0u64, 1, 127, 128, 255, 256, 0x7fff, 0x8000, u64::MAX, 1_000_000][r.random_range(0..10)],
                    puz: pool[r.random_range(0..pool.len())].clone(),
                    sol: pool[r.random_range(0..pool.len())].clone(),
                })
                .collect();
            out.emit(&ev_gen(&spends, "tlc"));
        }
    }

    // ---- fixed ladder: every width of the atom length prefix at its boundaries, canonical and padded,
    //      as atoms and as paths; sizes that cannot fit; illegal first bytes
    if args.u64("ladder", 0) == 1 {
        let big = args.u64("ladder-big", 0) == 1;
        let full = args.u64("ladder-full", 0) == 1;
        let mut lens: Vec<usize> = vec![0, 1, 2, 62, 63, 64, 65, 0xfff, 0x1000, 0x1fff, 0x2000, 0x10000];
        if full {
            lens.push(0x2001);
        }
        if big {
            lens.push(0x100000);
        }
        for n in lens {
            let a = Sx::A((0..n).map(|i| (i * 7 + 3) as u8 | 0x80).collect());
            if n <= 65 || n == 0x2000 || (full && n < 0x10000) {
                let t = Sx::list(vec![a.clone(), Sx::A(vec![5]), a.clone()]);
                emit!(ev_ser(&t, "ladder"));
                emit!(ev_dec(&compress(&t), "ladder"));
            }
            emit!(ev_dec(&plain(&a), "ladder"));
            // the same atom behind every wider (non-canonical) prefix
            let data: Vec<u8> = (0..n.min(300)).map(|i| i as u8).collect();
            let n2 = data.len() as u64;
            for w in 1..=6u32 {
                if w == 1 && n2 >= 0x40 {
                    continue;
                }
                let mut pre: Vec<u8> = Vec::new();
                let lead: u8 = (0xffu32 << (8 - w)) as u8;
                let total = (n2 as u128) | ((lead as u128) << (8 * (w - 1)));
                for i in (0..w).rev() {
                    pre.push((total >> (8 * i)) as u8);
                }
                let mut b = pre.clone();
                b.extend(&data);
                emit!(ev_dec(&b, "ladder"));
                // as a path of a back-reference behind two values
                let mut c = vec![0xff, 0xff, 0x82, 0x61, 0x62, 0x03, 0xfe];
                c.extend(&b);
                emit!(ev_dec(&c, "ladder"));
            }
        }
        for b in [
            vec![0xf8u8, 0x80, 0, 0, 0], vec![0xf8, 0x7f, 0xff, 0xff, 0xff], vec![0xfb, 0xff, 0xff, 0xff, 0xff], vec![0xfc, 0, 0, 0, 0, 0],
            vec![0xfc, 0x03, 0xff, 0xff, 0xff, 0xff], vec![0xfc, 0x04, 0, 0, 0, 0], vec![0xfd, 0, 0, 0, 0, 1, 7], vec![0xfc, 0, 0, 0, 0, 1, 7],
            vec![0xf8, 0, 0, 0, 1, 7], vec![0xf0, 0, 0, 1, 7], vec![0xe0, 0, 1, 7], vec![0xc0, 1, 7], vec![0xf7, 0xff, 0xff, 0xff], vec![0xfe, 0, 0, 0, 0, 0, 0],
            vec![0xff, 0x01, 0xfe, 0xfe, 0, 0, 0, 0, 0, 0], vec![0xff, 0x01, 0xfe, 0xff], vec![0xff, 0x01, 0xfe, 0xfd, 0, 0, 0, 0, 0, 2],
            vec![0xff, 0x01, 0xfe, 0xfc, 0, 0, 0, 0, 1, 2], vec![0xff, 0x01, 0xfe, 0x84, 0, 0, 0, 2], vec![0xff, 0x01, 0xfe, 0x84, 0, 0, 1, 0],
            vec![0xff, 0x01, 0xfe, 0x82, 0x01, 0x00], vec![0xff, 0xff, 0x01, 0x02, 0xfe, 0x82, 0x01, 0x00],
        ] {
            emit!(ev_dec(&b, "ladder"));
        }
        // deep stacks: a path of 9 .. 40 bits to the first of many distinct items
        for k in [7usize, 8, 9, 15, 16, 17, 23, 24, 25, 40] {
            let first = Sx::A(rand_bytes(&mut r, 24));
            let mut items: Vec<Sx> = vec![first.clone()];
            items.extend((0..k).map(|i| Sx::A(vec![0x90, i as u8])));
            items.push(first.clone());
            let t = Sx::list(items);
            emit!(ev_ser(&t, "ladder"));
            let c = compress(&t);
            emit!(ev_dec(&c, "ladder"));
            for _ in 0..4 {
                emit!(ev_dec(&mutate(&mut r, &c), "mut"));
            }
        }
    }

    // ---- seeded random trees with heavy repetition
    let n = args.u64("random", 0);
    for i in 0..n {
        let size = if i % 10 == 0 { r.random_range(20..120) } else { r.random_range(1..30) };
        let t = if i % 5 == 3 { far_repeat_tree(&mut r) } else { rand_tree(&mut r, size) };
        let p = plain(&t);
        if p.len() > max_bytes {
            continue;
        }
        emit!(ev_ser(&t, "rand"));
        if i % 4 == 0 {
            emit!(ev_run(&t, "rand"));
        }
        let c = compress(&t);
        emit!(ev_dec(&c, "rand"));
        for _ in 0..3 {
            let m = mutate(&mut r, &c);
            emit!(ev_dec(&m, "mut"));
        }
        if i % 8 == 0 {
            let m = mutate(&mut r, &p);
            emit!(ev_dec(&m, "mutp"));
        }
        // spends sharing puzzles, reveals given plain or compressed
        if i % 3 == 0 {
            let t2 = rand_tree(&mut r, 8);
            let k = r.random_range(1..5);
            let spends: Vec<Sp> = (0..k)
                .map(|j| {
                    let pz = if j % 2 == 0 { &t } else { &t2 };
                    Sp {
                        parent: rand_bytes(&mut r, 32),
                        ph: rand_bytes(&mut r, 32),
                        amount: r.random::<u64>() >> r.random_range(0..64),
                        puz: if r.random_range(0..2) == 0 { compress(pz) } else { plain(pz) },
                        sol: if r.random_range(0..2) == 0 { compress(&t2) } else { plain(&t2) },
                    }
                })
                .collect();
            out.emit(&ev_gen(&spends, "rand"));
        }
    }

    // ---- the repository's generators (many are stored compressed)
    if args.u64("corpus", 0) == 1 {
        let skip: Vec<String> = std::fs::read_to_string("/root/.vp/EMPTIED_FILES.txt").unwrap_or_default().lines().map(|l| l.trim().to_string()).collect();
        let dir = format!("{}/generator-tests", repo_dir());
        let mut names: Vec<_> = std::fs::read_dir(&dir).expect("corpus dir").filter_map(|e| e.ok()).map(|e| e.path()).filter(|p| p.extension().is_some_and(|x| x == "txt")).collect();
        names.sort();
        let mut done = 0;
        let limit = args.u64("corpus-files", 1000);
        for p in names {
            let name = p.file_name().unwrap().to_string_lossy().to_string();
            if skip.iter().any(|s| s.ends_with(&name)) {
                continue;
            }
            let Ok(text) = std::fs::read_to_string(&p) else { continue };
            let Some((hexline, _)) = text.split_once('\n') else { continue };
            let Ok(prog) = hex::decode(hexline.trim()) else { continue };
            if prog.is_empty() || prog.len() > max_bytes || done >= limit {
                continue;
            }
            done += 1;
            let src = format!("file:{name}");
            emit!(ev_dec(&prog, &src));
            let mut a = Allocator::new();
            if let Ok(n) = node_from_bytes_backrefs(&mut a, &prog) {
                let t = Sx::from_node(&a, n);
                emit!(ev_ser(&t, &src));
            }
            let m = mutate(&mut r, &prog);
            emit!(ev_dec(&m, "mutfile"));
        }
        // spend bundles -> generators
        let dir = format!("{}/test-bundles", repo_dir());
        let mut names: Vec<_> = std::fs::read_dir(&dir).expect("bundle dir").filter_map(|e| e.ok()).map(|e| e.path()).filter(|p| p.extension().is_some_and(|x| x == "bundle")).collect();
        names.sort();
        let mut done = 0;
        let limit = args.u64("bundle-files", 1000);
        for p in names {
            let Ok(buf) = std::fs::read(&p) else { continue };
            if buf.is_empty() || buf.len() > max_bytes || done >= limit {
                continue;
            }
            let Ok(Ok(bundle)) = catch(AssertUnwindSafe(|| SpendBundle::from_bytes(&buf))) else { continue };
            if bundle.coin_spends.is_empty() {
                continue;
            }
            done += 1;
            let name = p.file_stem().unwrap().to_string_lossy().to_string();
            let src = format!("bundle:{}", &name[..name.len().min(12)]);
            let spends: Vec<Sp> = bundle
                .coin_spends
                .iter()
                .map(|cs| Sp {
                    parent: cs.coin.parent_coin_info.as_ref().to_vec(),
                    ph: cs.coin.puzzle_hash.as_ref().to_vec(),
                    amount: cs.coin.amount,
                    puz: cs.puzzle_reveal.as_ref().to_vec(),
                    sol: cs.solution.as_ref().to_vec(),
                })
                .collect();
            out.emit(&ev_gen(&spends, &src));
            // the same spends with every reveal / solution compressed on its own
            let mut sp2 = spends.clone();
            let mut ok = true;
            for s in sp2.iter_mut() {
                let mut a = Allocator::new();
                let (Ok(pz), Ok(sl)) = (node_from_bytes_backrefs(&mut a, &s.puz), node_from_bytes_backrefs(&mut a, &s.sol)) else {
                    ok = false;
                    break;
                };
                s.puz = node_to_bytes_backrefs(&a, pz).expect("ser");
                s.sol = node_to_bytes_backrefs(&a, sl).expect("ser");
            }
            if ok {
                out.emit(&ev_gen(&sp2, &format!("{src}:c")));
                for s in &sp2 {
                    emit!(ev_dec(&s.puz, &format!("{src}:puz")));
                }
            }
        }
    }
    let n = out.finish();
    println!("{}", json!({"events": n, "skipped_deep": skipped_deep}));
}
