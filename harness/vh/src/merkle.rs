//! C12: Merkle set roots, proof generation and proof validation, observed on
//! TLC-generated cases (`--cases`) and on seeded random sets of real 32-byte leaves.
//! One event per set: every root computation on several orders of the leaf list,
//! generate_proof + validate_merkle_proof for several items, and the verdict of
//! validate_merkle_proof on adversarial proofs for each of those items.
use crate::sx::sha256;
use crate::util::*;
use chia_consensus::merkle_set::compute_merkle_set_root;
use chia_consensus::merkle_tree::{validate_merkle_proof, MerkleSet};
use rand::rngs::StdRng;
use rand::seq::SliceRandom;
use rand::Rng;
use serde_json::{json, Value};
use std::panic::AssertUnwindSafe;

type K = [u8; 32];

fn key(v: &Value) -> K {
    let b = from_jbytes(v);
    let mut k = [0u8; 32];
    k.copy_from_slice(&b[..32]);
    k
}

fn bit(k: &K, i: usize) -> bool {
    k[i / 8] & (0x80 >> (i % 8)) != 0
}

fn flip(k: &K, i: usize) -> K {
    let mut r = *k;
    r[i / 8] ^= 0x80 >> (i % 8);
    r
}

// ---- the harness's own view of the wire format (used only to BUILD adversarial proofs) ----
#[derive(Clone, Debug)]
enum P {
    E,
    T(K),
    R(K),
    M(Box<P>, Box<P>),
}

fn ser(p: &P, out: &mut Vec<u8>) {
    // iterative: proofs may be hundreds of levels deep
    let mut st = vec![p];
    while let Some(n) = st.pop() {
        match n {
            P::E => out.push(0),
            P::T(k) => {
                out.push(1);
                out.extend_from_slice(k);
            }
            P::R(h) => {
                out.push(3);
                out.extend_from_slice(h);
            }
            P::M(l, r) => {
                out.push(2);
                st.push(r);
                st.push(l);
            }
        }
    }
}

fn ser_v(p: &P) -> Vec<u8> {
    let mut v = Vec::new();
    ser(p, &mut v);
    v
}

fn parse_at(b: &[u8], i: &mut usize, depth: usize) -> Option<P> {
    if *i >= b.len() || depth > 400 {
        return None;
    }
    let tag = b[*i];
    *i += 1;
    match tag {
        0 => Some(P::E),
        1 | 3 => {
            if *i + 32 > b.len() {
                return None;
            }
            let mut k = [0u8; 32];
            k.copy_from_slice(&b[*i..*i + 32]);
            *i += 32;
            Some(if tag == 1 { P::T(k) } else { P::R(k) })
        }
        2 => {
            let l = parse_at(b, i, depth + 1)?;
            let r = parse_at(b, i, depth + 1)?;
            Some(P::M(Box::new(l), Box::new(r)))
        }
        _ => None,
    }
}

fn parse(b: &[u8]) -> Option<P> {
    let mut i = 0;
    let p = parse_at(b, &mut i, 0)?;
    if i == b.len() { Some(p) } else { None }
}

// node hash with the collapsing rule, from the independent sha2 crate; type: 0 E, 1 T, 2 M, 3 D
fn pnode(p: &P) -> (K, u8) {
    match p {
        P::E => ([0u8; 32], 0),
        P::T(k) => (*k, 1),
        P::R(h) => (*h, 2),
        P::M(l, r) => {
            let a = pnode(l);
            let b = pnode(r);
            if a.1 == 0 && b.1 == 3 {
                b
            } else if a.1 == 3 && b.1 == 0 {
                a
            } else {
                let code = |t: u8| if t >= 2 { 2u8 } else { t };
                let h = sha256(&[&[0u8; 30][..], &[code(a.1), code(b.1)][..], &a.0[..], &b.0[..]]);
                let mut k = [0u8; 32];
                k.copy_from_slice(&h);
                (k, if a.1 == 1 && b.1 == 1 { 3 } else { 2 })
            }
        }
    }
}

// all node positions as paths
fn paths(p: &P, cur: &mut Vec<bool>, out: &mut Vec<Vec<bool>>) {
    out.push(cur.clone());
    if let P::M(l, r) = p {
        cur.push(false);
        paths(l, cur, out);
        cur.pop();
        cur.push(true);
        paths(r, cur, out);
        cur.pop();
    }
}

fn sub<'a>(p: &'a P, path: &[bool]) -> &'a P {
    let mut n = p;
    for b in path {
        if let P::M(l, r) = n {
            n = if *b { r } else { l };
        }
    }
    n
}

fn repl(p: &P, path: &[bool], q: P) -> P {
    if path.is_empty() {
        return q;
    }
    match p {
        P::M(l, r) => {
            if path[0] {
                P::M(l.clone(), Box::new(repl(r, &path[1..], q)))
            } else {
                P::M(Box::new(repl(l, &path[1..], q)), r.clone())
            }
        }
        _ => q,
    }
}

fn mirror(p: &P) -> P {
    match p {
        P::M(l, r) => {
            if matches!(**l, P::E) || matches!(**r, P::E) {
                P::M(Box::new(mirror(r)), Box::new(mirror(l)))
            } else {
                P::M(Box::new(mirror(l)), Box::new(mirror(r)))
            }
        }
        x => x.clone(),
    }
}

fn m(l: P, r: P) -> P {
    P::M(Box::new(l), Box::new(r))
}

/// structure-aware mutations of one honest proof
fn tree_mutants(p: &P, pool: &[K], r: &mut StdRng, out: &mut Vec<(String, Vec<u8>)>, budget: usize) {
    let mut ps = Vec::new();
    paths(p, &mut Vec::new(), &mut ps);
    out.push(("mirror".into(), ser_v(&mirror(p))));
    // chain levels (one side empty) first: these rewrites keep the root hash
    let chain: Vec<&Vec<bool>> = ps
        .iter()
        .filter(|q| matches!(sub(p, q), P::M(l, rr) if matches!(**l, P::E) || matches!(**rr, P::E)))
        .collect();
    let mut pick: Vec<Vec<bool>> = Vec::new();
    if !chain.is_empty() {
        pick.push(chain[0].clone());
        pick.push(chain[chain.len() - 1].clone());
        pick.push(chain[r.random_range(0..chain.len())].clone());
    }
    for _ in 0..budget {
        pick.push(ps[r.random_range(0..ps.len())].clone());
    }
    // always the deepest nodes as well
    if let Some(deep) = ps.iter().max_by_key(|q| q.len()) {
        pick.push(deep.clone());
        if deep.len() > 1 {
            pick.push(deep[..deep.len() - 1].to_vec());
        }
    }
    for q in pick {
        let n = sub(p, &q);
        let mut vs: Vec<(&str, P)> = Vec::new();
        match n {
            P::M(l, rr) => {
                vs.push(("swap", P::M(rr.clone(), l.clone())));
                vs.push(("trunc", P::R(pnode(n).0)));
                vs.push(("lift", if r.random::<bool>() { (**l).clone() } else { (**rr).clone() }));
                if matches!(**rr, P::E) && matches!(**l, P::M(..)) {
                    vs.push(("truncswap", m(P::E, P::R(pnode(l).0))));
                    vs.push(("truncchain", m(P::R(pnode(l).0), P::E)));
                }
                if matches!(**l, P::E) && matches!(**rr, P::M(..)) {
                    vs.push(("truncswap", m(P::R(pnode(rr).0), P::E)));
                    vs.push(("truncchain", m(P::E, P::R(pnode(rr).0))));
                }
            }
            P::T(k) => {
                vs.push(("leaf-flip-last", P::T(flip(k, 255))));
                vs.push(("leaf-flip", P::T(flip(k, r.random_range(0..256)))));
                if !pool.is_empty() {
                    vs.push(("leaf-other", P::T(pool[r.random_range(0..pool.len())])));
                }
                vs.push(("leaf-as-trunc", P::R(*k)));
                vs.push(("leaf-to-empty", P::E));
            }
            P::R(h) => {
                let mut j = *h;
                j[r.random_range(0..32)] ^= 1 << r.random_range(0..8);
                vs.push(("trunc-junk", P::R(j)));
                vs.push(("trunc-to-empty", P::E));
                if !pool.is_empty() {
                    vs.push(("trunc-to-leaf", P::T(pool[r.random_range(0..pool.len())])));
                }
            }
            P::E => {
                if !pool.is_empty() {
                    vs.push(("empty-to-leaf", P::T(pool[r.random_range(0..pool.len())])));
                }
                vs.push(("empty-to-trunc", P::R([0u8; 32])));
            }
        }
        vs.push(("pad-left", m(n.clone(), P::E)));
        vs.push(("pad-right", m(P::E, n.clone())));
        for (name, v) in vs {
            out.push((format!("{name}@{}", q.len()), ser_v(&repl(p, &q, v))));
        }
    }
}

/// byte-level mutations of one honest proof
fn byte_mutants(b: &[u8], r: &mut StdRng, out: &mut Vec<(String, Vec<u8>)>) {
    let mut v = b.to_vec();
    v.push(0);
    out.push(("trailing-0".into(), v));
    let mut v = b.to_vec();
    let nt = r.random_range(1..40);
    v.extend(rand_bytes(r, nt));
    out.push(("trailing-rand".into(), v));
    if !b.is_empty() {
        out.push(("truncated".into(), b[..r.random_range(0..b.len())].to_vec()));
        out.push(("truncated-1".into(), b[..b.len() - 1].to_vec()));
        for _ in 0..3 {
            let mut v = b.to_vec();
            let i = r.random_range(0..v.len());
            v[i] ^= 1 << r.random_range(0..8);
            out.push(("bitflip".into(), v));
        }
        let mut v = b.to_vec();
        v[0] = r.random_range(4..=255);
        out.push(("bad-tag".into(), v));
    }
    out.push(("empty".into(), vec![]));
}

/// n nested middle nodes around `inner`, all on the route of `k`
fn nest(k: &K, n: usize, inner: P) -> P {
    let mut p = inner;
    for d in (0..n).rev() {
        p = if bit(k, d % 256) { m(P::E, p) } else { m(p, P::E) };
    }
    p
}

fn verdict(proof: &[u8], item: &K, root: &K) -> Value {
    match catch(AssertUnwindSafe(|| validate_merkle_proof(proof, item, root))) {
        Err(msg) => json!({"k": "panic", "msg": msg}),
        Ok(Err(_)) => json!({"k": "err"}),
        Ok(Ok(true)) => json!({"k": "yes"}),
        Ok(Ok(false)) => json!({"k": "no"}),
    }
}

fn root_res(r: Result<K, String>) -> Value {
    match r {
        Ok(h) => json!({"k": "ok", "v": jbytes(&h)}),
        Err(msg) => json!({"k": "panic", "msg": msg}),
    }
}

struct Adv {
    kind: String,
    p: Vec<u8>,
}

/// run everything on one (leaf list, items, adversarial proofs) triple
fn event(src: &str, leafs: &[K], items: &[K], mut adv: Vec<Adv>, r: &mut StdRng, self_adv: usize, pool: &[K], max_adv: usize) -> Value {
    // roots on several orders of the list
    let mut orders: Vec<Vec<K>> = vec![leafs.to_vec()];
    let mut rev = leafs.to_vec();
    rev.reverse();
    orders.push(rev);
    let mut sh = leafs.to_vec();
    if !sh.is_empty() {
        for _ in 0..r.random_range(0..3) {
            sh.push(sh[r.random_range(0..sh.len())]);
        }
    }
    sh.shuffle(r);
    orders.push(sh);
    let mut roots_a = Vec::new();
    let mut roots_b = Vec::new();
    for o in &orders {
        let mut c = o.clone();
        roots_a.push(root_res(catch(AssertUnwindSafe(|| compute_merkle_set_root(&mut c)))));
        let mut c = o.clone();
        roots_b.push(root_res(catch(AssertUnwindSafe(|| MerkleSet::from_leafs(&mut c).get_root()))));
    }
    let mut c = leafs.to_vec();
    let root: K = catch(AssertUnwindSafe(|| compute_merkle_set_root(&mut c))).unwrap_or([0u8; 32]);
    let mut c = orders[2].clone();
    let tree = catch(AssertUnwindSafe(|| MerkleSet::from_leafs(&mut c)));
    let mut q = Vec::new();
    for it in items {
        let genr = match &tree {
            Err(msg) => json!({"k": "panic", "msg": msg}),
            Ok(t) => match catch(AssertUnwindSafe(|| t.generate_proof(it))) {
                Err(msg) => json!({"k": "panic", "msg": msg}),
                Ok(Err(_)) => json!({"k": "err"}),
                Ok(Ok((incl, proof))) => {
                    let val = verdict(&proof, it, &root);
                    if self_adv > 0 {
                        if let Some(pt) = parse(&proof) {
                            let mut ms = Vec::new();
                            tree_mutants(&pt, pool, r, &mut ms, self_adv);
                            byte_mutants(&proof, r, &mut ms);
                            for (kind, p) in ms {
                                adv.push(Adv { kind, p });
                            }
                        }
                    }
                    json!({"k": "ok", "incl": incl, "proof": jbytes(&proof), "val": val})
                }
            },
        };
        q.push(json!({"item": jbytes(it), "gen": genr}));
    }
    // adversarial proofs: verdict for every item
    adv.sort_by(|a, b| a.p.cmp(&b.p));
    adv.dedup_by(|a, b| a.p == b.p);
    if self_adv > 0 {
        // bound the event size: one proof of every kind first, then random ones up to the caps
        adv.shuffle(r);
        let mut seen = std::collections::HashSet::new();
        let (mut first, mut rest): (Vec<Adv>, Vec<Adv>) = (Vec::new(), Vec::new());
        for a in adv {
            let base = a.kind.split('@').next().unwrap_or("").to_string();
            if seen.insert(base) { first.push(a) } else { rest.push(a) }
        }
        first.extend(rest);
        let mut bytes = 0usize;
        let mut kept = Vec::new();
        for a in first {
            if kept.len() >= max_adv || bytes + a.p.len() > 120_000 {
                continue;
            }
            bytes += a.p.len();
            kept.push(a);
        }
        adv = kept;
    }
    let advj: Vec<Value> = adv
        .iter()
        .map(|a| {
            let v: Vec<Value> = items.iter().map(|it| verdict(&a.p, it, &root)).collect();
            json!({"kind": a.kind, "p": jbytes(&a.p), "v": v})
        })
        .collect();
    json!({
        "k": "set", "src": src, "n": leafs.len(),
        "leafs": leafs.iter().map(|k| jbytes(k)).collect::<Vec<_>>(),
        "roots_a": roots_a, "roots_b": roots_b, "root": jbytes(&root),
        "q": q, "adv": advj,
    })
}

fn rand_key(r: &mut StdRng) -> K {
    let mut k = [0u8; 32];
    r.fill(&mut k);
    k
}

/// random set with clusters of near-collisions; `deep` allows keys that part only in the last bits
fn rand_set(r: &mut StdRng, n: usize, deep: bool) -> Vec<K> {
    let mut s: Vec<K> = Vec::with_capacity(n);
    while s.len() < n {
        let c = r.random_range(0..10);
        if c < 5 || s.is_empty() {
            s.push(rand_key(r));
        } else {
            let base = s[r.random_range(0..s.len())];
            let k = match (c, deep) {
                (5, true) => flip(&base, 255),
                (6, true) => flip(&base, r.random_range(248..256)),
                (7, true) => {
                    // same prefix, random tail of 1..16 bits
                    let mut k = base;
                    let t = r.random_range(1..=16);
                    for i in (256 - t)..256 {
                        if r.random::<bool>() {
                            k = flip(&k, i);
                        }
                    }
                    k
                }
                (8, true) => flip(&base, r.random_range(0..256)),
                (5..=8, false) => flip(&base, r.random_range(0..40)),
                _ => {
                    let mut k = rand_key(r);
                    let nb = r.random_range(0..if deep { 32 } else { 5 });
                    k[..nb].copy_from_slice(&base[..nb]);
                    k
                }
            };
            if !s.contains(&k) {
                s.push(k);
            }
        }
    }
    s
}

fn random_event(r: &mut StdRng, n: usize, nitems: usize, self_adv: usize, max_adv: usize, deep_pct: u32) -> Value {
    let deep = r.random_range(0..100) < deep_pct;
    let set = rand_set(r, n, deep);
    let mut leafs = set.clone();
    // duplicates and a random order
    if !leafs.is_empty() {
        for _ in 0..r.random_range(0..4) {
            leafs.push(leafs[r.random_range(0..leafs.len())]);
        }
    }
    leafs.shuffle(r);
    let mut items: Vec<K> = Vec::new();
    for i in 0..nitems {
        let k = if set.is_empty() {
            rand_key(r)
        } else {
            let base = set[r.random_range(0..set.len())];
            match (i + r.random_range(0..2)) % 6 {
                0 | 1 => base,
                2 => flip(&base, 255),
                3 => flip(&base, r.random_range(0..256)),
                4 => rand_key(r),
                _ => {
                    let mut k = rand_key(r);
                    let nb = r.random_range(0..32);
                    k[..nb].copy_from_slice(&base[..nb]);
                    k
                }
            }
        };
        if !items.contains(&k) {
            items.push(k);
        }
    }
    let mut pool: Vec<K> = items.clone();
    for _ in 0..4 {
        if !set.is_empty() {
            pool.push(set[r.random_range(0..set.len())]);
        }
    }
    let mut adv = Vec::new();
    // honest proofs of neighbouring sets (a member removed / an item added), and depth-limit probes
    if n <= 64 {
        for it in items.iter().take(2) {
            let mut other: Vec<K> = set.iter().filter(|k| *k != it).copied().collect();
            if other.len() == set.len() {
                other.push(*it);
            }
            if let Ok(t) = catch(AssertUnwindSafe(|| MerkleSet::from_leafs(&mut other))) {
                for it2 in items.iter().take(3) {
                    if let Ok(Ok((_, p))) = catch(AssertUnwindSafe(|| t.generate_proof(it2))) {
                        adv.push(Adv { kind: "other-set".into(), p });
                    }
                }
            }
        }
    }
    if r.random_range(0..8) == 0 {
        let k = items[0];
        for nlev in [255usize, 256, 257, 258] {
            adv.push(Adv { kind: format!("nest{nlev}-leaf"), p: ser_v(&nest(&k, nlev, P::T(k))) });
            adv.push(Adv { kind: format!("nest{nlev}-empty"), p: ser_v(&nest(&k, nlev, P::E)) });
        }
    }
    event("rand", &leafs, &items, adv, r, self_adv, &pool, max_adv)
}

pub fn record(args: &Args) {
    let mut out = Out::create(args.req("out"));
    let seed = args.u64("seed", 1);
    let mut r = rng(seed ^ 0xc12c12);
    if let Some(path) = args.get("cases") {
        let stride = args.u64("stride", 1) as usize;
        for (i, c) in read_ndjson(path).iter().enumerate() {
            if i % stride != (seed as usize) % stride {
                continue;
            }
            let leafs: Vec<K> = c["leafs"].as_array().map(|a| a.iter().map(key).collect()).unwrap_or_default();
            let items: Vec<K> = c["items"].as_array().map(|a| a.iter().map(key).collect()).unwrap_or_default();
            let adv: Vec<Adv> = c["adv"]
                .as_array()
                .map(|a| a.iter().map(|p| Adv { kind: "mc".into(), p: from_jbytes(p) }).collect())
                .unwrap_or_default();
            let mut ev = event("mc", &leafs, &items, adv, &mut r, 0, &[], 0);
            ev["emb"] = c["emb"].clone();
            out.emit(&ev);
        }
    }
    let max_adv = args.u64("maxadv", 32) as usize;
    let deep_pct = args.u64("deep", 25) as u32;
    let n_small = args.u64("small", 0);
    for i in 0..n_small {
        let n = match i % 8 {
            0 => (i / 8 % 4) as usize,
            1..=4 => r.random_range(2..12),
            _ => r.random_range(4..48),
        };
        out.emit(&random_event(&mut r, n, 5, 2, max_adv, deep_pct));
    }
    let n_mid = args.u64("mid", 0);
    for _ in 0..n_mid {
        let n = r.random_range(48..400);
        out.emit(&random_event(&mut r, n, 4, 2, max_adv, deep_pct));
    }
    let n_big = args.u64("big", 0);
    let maxn = args.u64("maxleafs", 2000) as usize;
    for _ in 0..n_big {
        let n = r.random_range(400..=maxn);
        out.emit(&random_event(&mut r, n, 3, 1, max_adv, deep_pct));
    }
    let n = out.finish();
    eprintln!("merkle: {n} events");
}
