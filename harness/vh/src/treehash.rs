//! C17: every tree-hash routine, observed on the same node tables.
//!
//! One `hist` event = one Allocator + ONE TreeCache + a sequence of calls (visit_tree,
//! tree_hash_cached, tree_hash, tree_hash_from_bytes on plain / back-reference serialisations,
//! the TreeHasher encoder) interleaved with allocations. The event logs the node table
//! (atoms + pair index pairs, 1-based, children before parents) and every returned hash; the
//! trace spec recomputes the reference bottom-up over the table.
use crate::sx::{sha256, Sx};
use crate::util::*;
use chia_protocol::SpendBundle;
use chia_traits::Streamable;
use clvm_traits::{clvm_curried_args, ClvmEncoder, ToClvm, ToClvmError};
use clvm_utils::{
    curry_tree_hash, tree_hash, tree_hash_cached, tree_hash_from_bytes, CurriedProgram, ToTreeHash, TreeCache, TreeHash,
    PRECOMPUTED_HASHES,
};
use clvmr::allocator::{Allocator, NodePtr, ObjectType, SExp};
use clvmr::serde::{node_from_bytes, node_from_bytes_backrefs, node_to_bytes, node_to_bytes_backrefs};
use clvmr::Atom;
use rand::rngs::StdRng;
use rand::Rng;
use serde_json::{json, Value};
use std::collections::HashMap;
use std::panic::AssertUnwindSafe;

#[derive(Clone, Debug)]
enum TNode {
    A(Vec<u8>, bool), // bytes, want SmallAtom representation
    P(usize, usize),  // 0-based children, smaller than own index
}

/// fits_in_small_atom of clvmr, restated (canonical non-negative integer below 2^26)
fn fits_small(v: &[u8]) -> Option<u32> {
    if v.is_empty() {
        return Some(0);
    }
    if v.len() > 4 || (v.len() == 1 && v[0] == 0) || (v[0] & 0x80) != 0 || (v[0] == 0 && (v[1] & 0x80) == 0) || (v.len() == 4 && v[0] > 3) {
        return None;
    }
    Some(v.iter().fold(0u32, |acc, b| (acc << 8) | *b as u32))
}

struct Live {
    a: Allocator,
    ptr: Vec<NodePtr>,
    rep: Vec<&'static str>,
    flip: u32,
}

impl Live {
    fn new() -> Live {
        Live { a: Allocator::new(), ptr: Vec::new(), rep: Vec::new(), flip: 0 }
    }
    /// allocate table nodes up to index `upto` (exclusive) in table order
    fn ensure(&mut self, tab: &[TNode], upto: usize) {
        while self.ptr.len() < upto {
            let i = self.ptr.len();
            let p = match &tab[i] {
                TNode::P(l, r) => self.a.new_pair(self.ptr[*l], self.ptr[*r]).expect("new_pair"),
                TNode::A(b, small) => {
                    self.flip = self.flip.wrapping_add(1);
                    let p = if *small && fits_small(b).is_some() {
                        if self.flip % 2 == 0 {
                            self.a.new_small_number(fits_small(b).unwrap()).expect("small")
                        } else {
                            self.a.new_atom(b).expect("atom")
                        }
                    } else if fits_small(b).is_some() {
                        // canonical bytes in a heap Buffer: only substr / concat produce that
                        if self.flip % 2 == 0 || b.is_empty() {
                            let mut long = vec![0xffu8; 5];
                            long.extend_from_slice(b);
                            long.extend_from_slice(&[0xee, 0xee]);
                            let n = self.a.new_atom(&long).expect("atom");
                            self.a.new_substr(n, 5, 5 + b.len() as u32).expect("substr")
                        } else {
                            let x = self.a.new_atom(&[0xff, 0xff, 0xff, 0xff, 0xff, 0xff]).expect("atom");
                            let e = self.a.new_substr(x, 0, 0).expect("substr");
                            let y = self.a.new_atom(b).expect("atom");
                            self.a.new_concat(b.len(), &[e, y]).expect("concat")
                        }
                    } else {
                        self.a.new_atom(b).expect("atom")
                    };
                    assert_eq!(self.a.atom(p).as_ref(), b.as_slice(), "harness allocated a different atom");
                    p
                }
            };
            self.rep.push(match p.object_type() {
                ObjectType::SmallAtom => "small",
                ObjectType::Bytes => "buf",
                ObjectType::Pair => "pair",
            });
            self.ptr.push(p);
        }
    }
}

fn tab_json(tab: &[TNode], rep: &[&'static str]) -> Value {
    Value::Array(
        tab.iter()
            .enumerate()
            .map(|(i, n)| match n {
                TNode::A(b, _) => json!({"a": jbytes(b), "rep": rep.get(i).copied().unwrap_or("none")}),
                TNode::P(l, r) => json!({"l": l + 1, "r": r + 1}),
            })
            .collect(),
    )
}

/// unfolded size and depth of every node (saturating)
fn measures(tab: &[TNode]) -> (Vec<u64>, Vec<u32>) {
    let mut size = Vec::with_capacity(tab.len());
    let mut depth = Vec::with_capacity(tab.len());
    for n in tab {
        match n {
            TNode::A(..) => {
                size.push(1u64);
                depth.push(0u32);
            }
            TNode::P(l, r) => {
                size.push(size[*l].saturating_add(size[*r]).saturating_add(1));
                depth.push(depth[*l].max(depth[*r]) + 1);
            }
        }
    }
    (size, depth)
}

/// a table node as a value for the generic clvm-traits encoders (hash_encoder.rs: TreeHasher)
struct DagRef<'a> {
    tab: &'a [TNode],
    n: usize,
}

impl<E: ClvmEncoder> ToClvm<E> for DagRef<'_> {
    fn to_clvm(&self, e: &mut E) -> Result<E::Node, ToClvmError> {
        match &self.tab[self.n] {
            TNode::A(b, _) => e.encode_atom(Atom::Borrowed(b)),
            TNode::P(l, r) => {
                let first = DagRef { tab: self.tab, n: *l }.to_clvm(e)?;
                let rest = DagRef { tab: self.tab, n: *r }.to_clvm(e)?;
                e.encode_pair(first, rest)
            }
        }
    }
}

const MAX_PLAIN: u64 = 150_000;
const MAX_BACKREF: u64 = 2_000_000;
const MAX_UNFOLD: u64 = 3_000_000;
const MAX_ENC_DEPTH: u32 = 1500;

#[derive(Clone, Debug)]
enum Ev {
    Alloc(usize), // allocate table prefix up to this length
    Call(&'static str, usize),
}

fn hash_json(r: Result<Result<TreeHash, String>, String>, op: &str, n: usize) -> Value {
    match r {
        Ok(Ok(h)) => json!({"op": op, "n": n + 1, "h": jbytes(h.as_ref())}),
        Ok(Err(e)) => json!({"op": op, "n": n + 1, "h": [], "err": e}),
        Err(p) => json!({"op": op, "n": n + 1, "h": [], "panic": p}),
    }
}

fn slots_of(live: &Live, cache: &TreeCache, tab: &[TNode], upto: usize, limit: usize, r: &mut StdRng) -> Value {
    let pairs: Vec<usize> = (0..upto).filter(|i| matches!(tab[*i], TNode::P(..))).collect();
    let mut out = Vec::new();
    let stride = if pairs.len() > limit { pairs.len() / limit + 1 } else { 1 };
    let off = if stride > 1 { r.random_range(0..stride) } else { 0 };
    for (k, i) in pairs.iter().enumerate() {
        if k % stride != off % stride {
            continue;
        }
        match catch(AssertUnwindSafe(|| cache.get(live.ptr[*i]).copied())) {
            Ok(Some(h)) => out.push(json!([i + 1, jbytes(h.as_ref())])),
            Ok(None) => {}
            Err(_) => out.push(json!([i + 1, []])),
        }
    }
    Value::Array(out)
}

/// independent reference hashes of the first `upto` table nodes (sha2 crate, bottom-up)
fn table_ref_hashes(tab: &[TNode], upto: usize) -> Vec<[u8; 32]> {
    let mut hs: Vec<[u8; 32]> = Vec::with_capacity(upto);
    for nd in &tab[..upto] {
        let h = match nd {
            TNode::A(b, _) => sha256(&[&[1u8][..], b.as_slice()]),
            TNode::P(l, r) => sha256(&[&[2u8][..], &hs[*l][..], &hs[*r][..]]),
        };
        hs.push(h.as_slice().try_into().expect("32 bytes"));
    }
    hs
}

/// run one history on a fresh Allocator and ONE TreeCache
fn run_history(tab: &[TNode], evs: &[Ev], gen_name: &str, r: &mut StdRng) -> Value {
    let (size, depth) = measures(tab);
    let mut live = Live::new();
    let mut cache = TreeCache::default();
    let small = tab.len() <= 48;
    let mut seen_slots: Vec<Value> = Vec::new();
    let mut ops = Vec::new();
    for ev in evs {
        match ev {
            Ev::Alloc(k) => {
                live.ensure(tab, *k);
                ops.push(json!({"op": "alloc", "n": *k, "h": []}));
            }
            Ev::Call(op, n) => {
                live.ensure(tab, n + 1);
                let node = live.ptr[*n];
                let a = &live.a;
                let mut rec = match *op {
                    "visit" => match catch(AssertUnwindSafe(|| cache.visit_tree(a, node))) {
                        Ok(()) => json!({"op": "visit", "n": n + 1, "h": []}),
                        Err(p) => json!({"op": "visit", "n": n + 1, "h": [], "panic": p}),
                    },
                    "cached" => hash_json(catch(AssertUnwindSafe(|| Ok(tree_hash_cached(a, node, &mut cache)))), op, *n),
                    "insert" => {
                        // pre-seed the shared cache through the public API with the node's true hash
                        // (independent bottom-up reference; only where nothing is memoised yet, as in the spec)
                        if !matches!(tab[*n], TNode::P(..)) || cache.get(node).is_some() {
                            continue;
                        }
                        let h = TreeHash::new(table_ref_hashes(tab, n + 1)[*n]);
                        match catch(AssertUnwindSafe(|| cache.insert(node, &h))) {
                            Ok(()) => json!({"op": "insert", "n": n + 1, "h": []}),
                            Err(p) => json!({"op": "insert", "n": n + 1, "h": [], "panic": p}),
                        }
                    }
                    "plain" => {
                        // tree_hash walks the unfolded tree: exponential on heavily shared DAGs
                        if size[*n] > MAX_UNFOLD {
                            continue;
                        }
                        hash_json(catch(AssertUnwindSafe(|| Ok(tree_hash(a, node)))), op, *n)
                    }
                    "bytes" | "bytes_br" => {
                        let lim = if *op == "bytes" { MAX_PLAIN } else { MAX_BACKREF };
                        if size[*n] > lim {
                            continue;
                        }
                        let buf = if *op == "bytes" { node_to_bytes(a, node) } else { node_to_bytes_backrefs(a, node) }.expect("serialise");
                        hash_json(catch(AssertUnwindSafe(|| tree_hash_from_bytes(&buf).map_err(|e| format!("{e:?}")))), op, *n)
                    }
                    "enc" => {
                        if size[*n] > MAX_PLAIN || depth[*n] > MAX_ENC_DEPTH {
                            continue;
                        }
                        hash_json(catch(AssertUnwindSafe(|| Ok(DagRef { tab, n: *n }.tree_hash()))), op, *n)
                    }
                    _ => panic!("unknown op {op}"),
                };
                if small && (*op == "visit" || *op == "cached" || *op == "insert") {
                    // memoised slots (TreeCache::get) that are new or changed since the previous call
                    let now = slots_of(&live, &cache, tab, live.ptr.len(), 1000, r);
                    let delta: Vec<Value> = now.as_array().unwrap().iter().filter(|x| !seen_slots.contains(*x)).cloned().collect();
                    if !delta.is_empty() {
                        seen_slots.extend(delta.iter().cloned());
                        rec["s"] = Value::Array(delta);
                    }
                }
                ops.push(rec);
            }
        }
    }
    let upto = live.ptr.len();
    json!({
        "k": "hist", "gen": gen_name,
        "tbl": tab_json(&tab[..upto], &live.rep),
        "ops": ops,
        "slots": slots_of(&live, &cache, tab, upto, 200, r),
    })
}

// ---------------------------------------------------------------- replay of TLC histories
fn replay_hist(c: &Value, r: &mut StdRng) -> Value {
    let mut tab: Vec<TNode> = c["base"]
        .as_array()
        .expect("base")
        .iter()
        .map(|n| TNode::A(from_jbytes(&n["a"]), n["rep"].as_str() == Some("small")))
        .collect();
    let mut evs = Vec::new();
    let mut last_target = None;
    for e in c["ev"].as_array().expect("ev") {
        let k = e["k"].as_str().unwrap_or("");
        if k == "alloc" {
            tab.push(TNode::P(e["l"].as_u64().unwrap() as usize - 1, e["r"].as_u64().unwrap() as usize - 1));
            evs.push(Ev::Alloc(tab.len()));
        } else {
            let n = e["n"].as_u64().unwrap() as usize - 1;
            let op: &'static str = match k {
                "visit" => "visit",
                "cached" => "cached",
                "insert" => "insert",
                "plain" => "plain",
                "bytes" => "bytes",
                "bytes_br" => "bytes_br",
                "enc" => "enc",
                other => panic!("unknown call {other}"),
            };
            evs.push(Ev::Call(op, n));
            last_target = Some(n);
        }
    }
    // the calls that do not use the shared cache, after the history (they must not care)
    if let Some(n) = last_target {
        for op in ["plain", "bytes", "bytes_br", "enc", "cached"] {
            evs.push(Ev::Call(op, n));
        }
    }
    run_history(&tab, &evs, "mc", r)
}

/// replay of a logged event (checks/c17.py replay): the node table and the calls as recorded
fn replay_table(c: &Value, r: &mut StdRng) -> Value {
    let tab: Vec<TNode> = c["tbl"]
        .as_array()
        .expect("tbl")
        .iter()
        .map(|n| {
            if n.get("a").is_some() {
                TNode::A(from_jbytes(&n["a"]), n["rep"].as_str() == Some("small"))
            } else {
                TNode::P(n["l"].as_u64().unwrap() as usize - 1, n["r"].as_u64().unwrap() as usize - 1)
            }
        })
        .collect();
    let mut evs = Vec::new();
    for o in c["ops"].as_array().expect("ops") {
        let n = o["n"].as_u64().unwrap_or(1) as usize;
        match o["op"].as_str().unwrap_or("") {
            "alloc" => evs.push(Ev::Alloc(n.min(tab.len()))),
            "visit" => evs.push(Ev::Call("visit", n - 1)),
            "cached" => evs.push(Ev::Call("cached", n - 1)),
            "insert" => evs.push(Ev::Call("insert", n - 1)),
            "plain" => evs.push(Ev::Call("plain", n - 1)),
            "bytes" => evs.push(Ev::Call("bytes", n - 1)),
            "bytes_br" => evs.push(Ev::Call("bytes_br", n - 1)),
            "enc" => evs.push(Ev::Call("enc", n - 1)),
            _ => {}
        }
    }
    run_history(&tab, &evs, "replay", r)
}

// ---------------------------------------------------------------- currying
fn ref_hash(x: &Sx) -> [u8; 32] {
    // independent reference (sha2 crate), iterative on the right spine
    let mut items = Vec::new();
    let mut cur = x;
    loop {
        match cur {
            Sx::A(b) => {
                let mut h: [u8; 32] = crate::sx::sha256(&[&[1u8], b]).try_into().unwrap();
                for l in items.into_iter().rev() {
                    let l: [u8; 32] = l;
                    h = crate::sx::sha256(&[&[2u8], &l, &h]).try_into().unwrap();
                }
                return h;
            }
            Sx::P(l, rr) => {
                items.push(ref_hash(l));
                cur = rr;
            }
        }
    }
}

fn curry_event(p: &Sx, args: &[Sx]) -> Value {
    let mut a = Allocator::new();
    let pn = p.to_node(&mut a);
    let an: Vec<NodePtr> = args.iter().map(|x| x.to_node(&mut a)).collect();
    let ph = TreeHash::new(ref_hash(p));
    let ah: Vec<TreeHash> = args.iter().map(|x| TreeHash::new(ref_hash(x))).collect();
    macro_rules! build {
        ($($i:expr),*) => {{
            let built = CurriedProgram { program: pn, args: clvm_curried_args!($(an[$i]),*) }.to_clvm(&mut a).expect("curry to_clvm");
            let enc = catch(AssertUnwindSafe(|| CurriedProgram { program: ph, args: clvm_curried_args!($(ah[$i]),*) }.tree_hash()));
            (built, enc)
        }};
    }
    let (built, enc) = match args.len() {
        0 => build!(),
        1 => build!(0),
        2 => build!(0, 1),
        3 => build!(0, 1, 2),
        4 => build!(0, 1, 2, 3),
        5 => build!(0, 1, 2, 3, 4),
        _ => build!(0, 1, 2, 3, 4, 5),
    };
    let h = catch(AssertUnwindSafe(|| curry_tree_hash(ph, &ah)));
    let built_h = catch(AssertUnwindSafe(|| tree_hash(&a, built)));
    let mut cache = TreeCache::default();
    let built_c = catch(AssertUnwindSafe(|| tree_hash_cached(&a, built, &mut cache)));
    let hj = |x: &Result<TreeHash, String>| match x {
        Ok(h) => jbytes(h.as_ref()),
        Err(_) => json!([]),
    };
    json!({
        "k": "curry", "p": p.to_json(), "args": args.iter().map(|x| x.to_json()).collect::<Vec<_>>(),
        "h": hj(&h), "built": Sx::from_node(&a, built).to_json(), "built_h": hj(&built_h), "built_c": hj(&built_c), "enc_h": hj(&enc),
    })
}

// ---------------------------------------------------------------- random generation
fn atom_menu(r: &mut StdRng) -> TNode {
    let v = r.random_range(0..=40u8);
    match r.random_range(0..12) {
        0 | 1 | 2 => TNode::A(if v == 0 { vec![] } else { vec![v] }, true), // canonical small int, SmallAtom
        3 | 4 => TNode::A(if v == 0 { vec![] } else { vec![v] }, false),    // same bytes in a heap Buffer
        5 => TNode::A(vec![0, v], false),                                    // redundant leading zero: a different atom
        6 => TNode::A(vec![0, 0, v], false),
        7 => TNode::A(vec![v | 0x80], false), // negative
        8 => {
            let w: u32 = [23, 24, 127, 128, 255, 256, 65535, (1 << 26) - 1, 1 << 26, 0x7fffffff][r.random_range(0..10)];
            let b = crate::sx::enc_uint(w as u128);
            let small = fits_small(&b).is_some() && r.random::<bool>();
            TNode::A(b, small)
        }
        9 => TNode::A(rand_bytes(r, 32), false),
        10 => {
            let len = [1usize, 2, 3, 4, 5, 48, 100][r.random_range(0..7)];
            TNode::A(rand_bytes(r, len), true)
        }
        _ => TNode::A(vec![v, 0], true),
    }
}

fn gen_table(kind: &str, n: usize, r: &mut StdRng) -> Vec<TNode> {
    let mut tab: Vec<TNode> = Vec::new();
    let natoms = (n / 20).clamp(2, 60);
    for _ in 0..natoms {
        tab.push(atom_menu(r));
    }
    match kind {
        "deep" => {
            // a chain: each new pair has the previous pair on one side; occasional sharing of older pairs
            let mut prev = 0usize;
            while tab.len() < n {
                let other = if r.random_range(0..10) == 0 { r.random_range(0..tab.len()) } else { r.random_range(0..natoms) };
                let p = if r.random_range(0..8) == 0 { TNode::P(prev, other) } else { TNode::P(other, prev) };
                tab.push(p);
                prev = tab.len() - 1;
            }
        }
        "wide" => {
            // many small subtrees, then a balanced combination
            let mut level: Vec<usize> = Vec::new();
            while tab.len() < n * 2 / 3 {
                let l = r.random_range(0..natoms);
                let rr = r.random_range(0..natoms);
                tab.push(TNode::P(l, rr));
                level.push(tab.len() - 1);
            }
            while level.len() > 1 {
                let mut next = Vec::new();
                for c in level.chunks(2) {
                    if c.len() == 2 {
                        tab.push(TNode::P(c[0], c[1]));
                        next.push(tab.len() - 1);
                    } else {
                        next.push(c[0]);
                    }
                }
                level = next;
            }
        }
        "share" => {
            // heavy sharing: children among the most recent nodes, often the same node twice
            while tab.len() < n {
                let w = 1 + r.random_range(0..4usize);
                let hi = tab.len();
                let lo = hi.saturating_sub(w);
                let l = r.random_range(lo..hi);
                let rr = if r.random::<bool>() { l } else { r.random_range(lo..hi) };
                tab.push(TNode::P(l, rr));
            }
        }
        _ => {
            // mix: children anywhere, biased towards recent nodes
            while tab.len() < n {
                let pick = |r: &mut StdRng, len: usize| -> usize {
                    if r.random_range(0..3) == 0 {
                        r.random_range(0..len)
                    } else {
                        len - 1 - r.random_range(0..len.min(12))
                    }
                };
                let l = pick(r, tab.len());
                let rr = pick(r, tab.len());
                tab.push(TNode::P(l, rr));
            }
        }
    }
    tab
}

/// 2..50 trees through one cache, allocations interleaved
fn gen_schedule(tab: &[TNode], r: &mut StdRng) -> Vec<Ev> {
    let n = tab.len();
    let pairs: Vec<usize> = (0..n).filter(|i| matches!(tab[*i], TNode::P(..))).collect();
    let ntrees = r.random_range(2..=50usize);
    let mut evs = Vec::new();
    if pairs.is_empty() {
        return vec![Ev::Call("cached", 0), Ev::Call("plain", 0)];
    }
    let style = r.random_range(0..4);
    if style == 3 {
        // a cache pre-seeded through TreeCache::insert (late pairs first, leaving gaps in the index table),
        // then trees containing earlier, never visited pairs
        evs.push(Ev::Alloc(n));
        for _ in 0..r.random_range(1..4usize) {
            evs.push(Ev::Call("insert", pairs[pairs.len() - 1 - r.random_range(0..pairs.len().min(4))]));
        }
        for _ in 0..ntrees.min(8) {
            let x = pairs[r.random_range(0..pairs.len())];
            evs.push(Ev::Call(if r.random_range(0..4) == 0 { "insert" } else { "cached" }, x));
        }
        evs.push(Ev::Call("cached", pairs[0]));
        evs.push(Ev::Call("cached", *pairs.last().unwrap()));
        evs.push(Ev::Call("plain", *pairs.last().unwrap()));
    } else if style == 0 {
        // run_block_generator2: visit every puzzle first, then hash each, the interpreter allocating in between
        let first_alloc = n - n / 4;
        evs.push(Ev::Alloc(first_alloc));
        let avail: Vec<usize> = pairs.iter().copied().filter(|p| *p < first_alloc).collect();
        if avail.is_empty() {
            return vec![Ev::Call("cached", pairs[0])];
        }
        let roots: Vec<usize> = (0..ntrees).map(|_| avail[avail.len() - 1 - r.random_range(0..avail.len().min(2 * ntrees))]).collect();
        for x in &roots {
            evs.push(Ev::Call("visit", *x));
        }
        let mut upto = first_alloc;
        for x in &roots {
            if upto < n {
                upto = (upto + 1 + r.random_range(0..(n - upto))).min(n);
                evs.push(Ev::Alloc(upto));
            }
            evs.push(Ev::Call("cached", *x));
        }
        // later trees may contain nodes allocated after the first puzzles were hashed
        evs.push(Ev::Call("cached", *pairs.last().unwrap()));
        evs.push(Ev::Call("plain", roots[0]));
    } else {
        let mut frontier = if style == 1 { n } else { pairs[0] + 1 };
        for t in 0..ntrees {
            if frontier < n {
                frontier = (frontier + r.random_range(0..=(2 * n / ntrees))).min(n);
            }
            if t == ntrees - 1 {
                frontier = n;
            }
            let avail = pairs.partition_point(|p| *p < frontier);
            if avail == 0 {
                continue;
            }
            // mostly recent roots, sometimes any
            let x = if r.random_range(0..4) == 0 { pairs[r.random_range(0..avail)] } else { pairs[avail - 1 - r.random_range(0..avail.min(6))] };
            let op = match r.random_range(0..20) {
                0..=4 => "visit",
                5..=13 => "cached",
                14 | 15 => "plain",
                16 => "bytes",
                17 => "bytes_br",
                18 => "enc",
                19 => "insert",
                _ => "cached",
            };
            evs.push(Ev::Call(op, x));
            if r.random_range(0..4) == 0 {
                evs.push(Ev::Call("cached", x));
            }
        }
        evs.push(Ev::Call("plain", *pairs.last().unwrap()));
        evs.push(Ev::Call("cached", *pairs.last().unwrap()));
    }
    // atoms as roots as well
    let atom = r.random_range(0..n.min(2));
    evs.push(Ev::Call("cached", atom));
    evs.push(Ev::Call("plain", atom));
    evs
}

/// every atom 0..40 in every encoding, hashed alone and inside a pair, through every routine
fn atom_sweep(out: &mut Out, r: &mut StdRng) {
    for v in 0..=40u8 {
        let canon = if v == 0 { vec![] } else { vec![v] };
        let tab = vec![
            TNode::A(canon.clone(), true),
            TNode::A(canon.clone(), false),
            TNode::A(vec![0, v], false),
            TNode::A(vec![0, 0, v], false),
            TNode::A(vec![v, 0], true),
            TNode::A(vec![v | 0x80], false),
            TNode::P(0, 2),
            TNode::P(1, 0),
            TNode::P(3, 1),
            TNode::P(6, 7),
            TNode::P(9, 8),
            TNode::P(4, 5),
        ];
        let mut evs = Vec::new();
        for n in 0..tab.len() {
            for op in ["plain", "cached", "bytes", "bytes_br", "enc", "cached"] {
                evs.push(Ev::Call(op, n));
            }
        }
        out.emit(&run_history(&tab, &evs, "atoms", r));
    }
}

fn rand_sx(r: &mut StdRng, depth: u32) -> Sx {
    if depth == 0 || r.random_range(0..3) == 0 {
        match atom_menu(r) {
            TNode::A(b, _) => Sx::A(b),
            TNode::P(..) => Sx::nil(),
        }
    } else {
        Sx::cons(rand_sx(r, depth - 1), rand_sx(r, depth - 1))
    }
}

// ---------------------------------------------------------------- corpus: puzzle reveals of the test bundles
fn extract(a: &Allocator, roots: &[NodePtr]) -> (Vec<TNode>, Vec<usize>, Vec<NodePtr>) {
    let mut idx: HashMap<NodePtr, usize> = HashMap::new();
    let mut tab = Vec::new();
    let mut ptrs = Vec::new();
    for root in roots {
        let mut stack = vec![(*root, false)];
        while let Some((n, expanded)) = stack.pop() {
            if idx.contains_key(&n) {
                continue;
            }
            match a.sexp(n) {
                SExp::Atom => {
                    idx.insert(n, tab.len());
                    tab.push(TNode::A(a.atom(n).as_ref().to_vec(), matches!(n.object_type(), ObjectType::SmallAtom)));
                    ptrs.push(n);
                }
                SExp::Pair(l, rr) => {
                    if expanded {
                        idx.insert(n, tab.len());
                        tab.push(TNode::P(idx[&l], idx[&rr]));
                        ptrs.push(n);
                    } else {
                        stack.push((n, true));
                        stack.push((rr, false));
                        stack.push((l, false));
                    }
                }
            }
        }
    }
    let r = roots.iter().map(|x| idx[x]).collect();
    (tab, r, ptrs)
}

fn corpus(out: &mut Out, dir: &str, max_files: usize, r: &mut StdRng) -> usize {
    let mut files: Vec<_> = match std::fs::read_dir(dir) {
        Ok(d) => d.filter_map(|e| e.ok()).map(|e| e.path()).filter(|p| p.extension().is_some_and(|x| x == "bundle")).collect(),
        Err(_) => return 0,
    };
    files.sort();
    // seeded choice of files
    for i in (1..files.len()).rev() {
        files.swap(i, r.random_range(0..=i));
    }
    let mut done = 0;
    for f in files.iter().take(max_files) {
        let Ok(bytes) = std::fs::read(f) else { continue };
        let Ok(bundle) = SpendBundle::from_bytes(&bytes) else { continue };
        if bundle.coin_spends.is_empty() {
            continue;
        }
        // like a compressed block: all puzzles in one list, serialised with back-references, so that
        // equal puzzles / sub-puzzles are shared nodes of ONE allocator
        let mut a = Allocator::new();
        let mut list = a.nil();
        let mut reveals: Vec<Vec<u8>> = Vec::new();
        for cs in bundle.coin_spends.iter().rev() {
            let b: &[u8] = cs.puzzle_reveal.as_ref();
            let Ok(n) = node_from_bytes(&mut a, b) else { continue };
            list = a.new_pair(n, list).expect("pair");
            reveals.push(b.to_vec());
        }
        reveals.reverse();
        let Ok(ser) = node_to_bytes_backrefs(&a, list) else { continue };
        let mut a = Allocator::new();
        let Ok(list) = node_from_bytes_backrefs(&mut a, &ser) else { continue };
        let mut roots = Vec::new();
        let mut it = list;
        while let Some((x, rest)) = a.next(it) {
            roots.push(x);
            it = rest;
        }
        let (tab, ridx, ptrs) = extract(&a, &roots);
        let rep: Vec<&'static str> = ptrs
            .iter()
            .map(|p| match p.object_type() {
                ObjectType::SmallAtom => "small",
                ObjectType::Bytes => "buf",
                ObjectType::Pair => "pair",
            })
            .collect();
        let mut cache = TreeCache::default();
        let mut ops = Vec::new();
        for (x, i) in roots.iter().zip(&ridx) {
            match catch(AssertUnwindSafe(|| cache.visit_tree(&a, *x))) {
                Ok(()) => ops.push(json!({"op": "visit", "n": i + 1, "h": []})),
                Err(p) => ops.push(json!({"op": "visit", "n": i + 1, "h": [], "panic": p})),
            }
        }
        for (k, (x, i)) in roots.iter().zip(&ridx).enumerate() {
            // the interpreter allocates between the hashes
            for _ in 0..r.random_range(0..20) {
                let n = a.nil();
                a.new_pair(n, *x).expect("pair");
            }
            ops.push(hash_json(catch(AssertUnwindSafe(|| Ok(tree_hash_cached(&a, *x, &mut cache)))), "cached", *i));
            ops.push(hash_json(catch(AssertUnwindSafe(|| Ok(tree_hash(&a, *x)))), "plain", *i));
            if k < reveals.len() {
                ops.push(hash_json(catch(AssertUnwindSafe(|| tree_hash_from_bytes(&reveals[k]).map_err(|e| format!("{e:?}")))), "bytes", *i));
            }
            if let Ok(br) = node_to_bytes_backrefs(&a, *x) {
                ops.push(hash_json(catch(AssertUnwindSafe(|| tree_hash_from_bytes(&br).map_err(|e| format!("{e:?}")))), "bytes_br", *i));
            }
        }
        let mut slots = Vec::new();
        for (i, p) in ptrs.iter().enumerate() {
            if !p.is_pair() || slots.len() >= 200 {
                continue;
            }
            match catch(AssertUnwindSafe(|| cache.get(*p).copied())) {
                Ok(Some(h)) => slots.push(json!([i + 1, jbytes(h.as_ref())])),
                Ok(None) => {}
                Err(_) => slots.push(json!([i + 1, []])),
            }
        }
        out.emit(&json!({
            "k": "hist", "gen": "corpus", "file": f.file_name().map(|x| x.to_string_lossy().to_string()).unwrap_or_default(),
            "tbl": tab_json(&tab, &rep), "ops": ops, "slots": slots,
        }));
        done += 1;
    }
    done
}

pub fn record(args: &Args) {
    let seed = args.u64("seed", 1);
    let mut r = rng(seed);
    let mut out = Out::create(args.req("out"));
    // the table the code ships, to be recomputed by the specification
    out.emit(&json!({"k": "pre", "tab": PRECOMPUTED_HASHES.iter().map(|h| jbytes(h.as_ref())).collect::<Vec<_>>()}));
    if let Some(cases) = args.get("cases") {
        for c in read_ndjson(cases) {
            match c["k"].as_str().unwrap_or("") {
                "hist" => out.emit(&replay_hist(&c, &mut r)),
                "table" => out.emit(&replay_table(&c, &mut r)),
                "curry" => {
                    let p = Sx::from_json(&c["p"]);
                    let a: Vec<Sx> = c["args"].as_array().map(|v| v.iter().map(Sx::from_json).collect()).unwrap_or_default();
                    out.emit(&curry_event(&p, &a));
                }
                _ => {}
            }
        }
    }
    if args.u64("atoms", 0) > 0 {
        atom_sweep(&mut out, &mut r);
    }
    let kinds = ["deep", "wide", "share", "mix"];
    // (count, min nodes, max nodes) classes
    for (key, lo, hi) in [("small", 4usize, 14usize), ("medium", 30, 600), ("big", 6000, 10000)] {
        let cnt = args.u64(key, 0);
        for i in 0..cnt {
            let n = r.random_range(lo..=hi);
            let kind = kinds[(i as usize) % kinds.len()];
            let tab = gen_table(kind, n, &mut r);
            let evs = gen_schedule(&tab, &mut r);
            out.emit(&run_history(&tab, &evs, kind, &mut r));
        }
    }
    for _ in 0..args.u64("curry", 0) {
        let p = rand_sx(&mut r, 3);
        let k = r.random_range(0..=5usize);
        let a: Vec<Sx> = (0..k).map(|_| rand_sx(&mut r, 2)).collect();
        out.emit(&curry_event(&p, &a));
    }
    let nc = args.u64("corpus", 0);
    if nc > 0 {
        let done = corpus(&mut out, args.get("corpus-dir").unwrap_or("/repo/test-bundles"), nc as usize, &mut r);
        eprintln!("corpus bundles: {done}");
    }
    let n = out.finish();
    eprintln!("treehash: {n} events");
}
