//! C13 (wire encoding is a canonical bijection consistent with hashing) and
//! C14 (decoding arbitrary bytes is total and bounded).
//!
//! Modes (`--mode`):
//!   list     print the registry names (one Rust type expression per line)
//!   c13      record C13 events: values (arbitrary / schema-generated / TLC cases), every
//!            single-position perturbation of the grammar-marked prefixes, truncation/extension
//!   c14      adversarial inputs derived from the grammar, each run in a child process
//!   child14  (internal) run a slice of a C14 case file with allocation / CPU accounting
//!
//! The harness never judges: it logs what the implementation did plus ORACLE facts obtained
//! from raw blst / clvmr (point validity, program length) at the positions where the grammar
//! of the schema asks for them. Verdicts are computed by TLC (Trace_Streamable / Trace_Totality).
use crate::util::*;
use arbitrary::{Arbitrary, Unstructured};
use chia_protocol::{FullBlock, ProofOfSpace, UnfinishedBlock};
use chia_traits::Streamable;
use rand::rngs::StdRng;
use rand::Rng;
use serde_json::{json, Map, Value};
use std::alloc::{GlobalAlloc, Layout, System};
use std::collections::BTreeMap;
use std::fmt::Debug;
use std::io::{BufRead, Write};
use std::panic::AssertUnwindSafe;
use std::sync::atomic::{AtomicUsize, Ordering};

// ------------------------------------------------------------------------------------------
// counting allocator (process-wide in this binary; two relaxed atomics per call)
// ------------------------------------------------------------------------------------------
pub static CUR: AtomicUsize = AtomicUsize::new(0);
pub static PEAK: AtomicUsize = AtomicUsize::new(0);

pub struct Counting;

#[inline]
fn note_alloc(n: usize) {
    let c = CUR.fetch_add(n, Ordering::Relaxed) + n;
    PEAK.fetch_max(c, Ordering::Relaxed);
}

unsafe impl GlobalAlloc for Counting {
    unsafe fn alloc(&self, l: Layout) -> *mut u8 {
        let p = unsafe { System.alloc(l) };
        if !p.is_null() {
            note_alloc(l.size());
        }
        p
    }
    unsafe fn alloc_zeroed(&self, l: Layout) -> *mut u8 {
        let p = unsafe { System.alloc_zeroed(l) };
        if !p.is_null() {
            note_alloc(l.size());
        }
        p
    }
    unsafe fn dealloc(&self, p: *mut u8, l: Layout) {
        unsafe { System.dealloc(p, l) };
        CUR.fetch_sub(l.size(), Ordering::Relaxed);
    }
    unsafe fn realloc(&self, p: *mut u8, l: Layout, new_size: usize) -> *mut u8 {
        let q = unsafe { System.realloc(p, l, new_size) };
        if !q.is_null() {
            if new_size >= l.size() {
                note_alloc(new_size - l.size());
            } else {
                CUR.fetch_sub(l.size() - new_size, Ordering::Relaxed);
            }
        }
        q
    }
}

#[global_allocator]
static GLOBAL: Counting = Counting;

#[repr(C)]
struct Timespec {
    tv_sec: i64,
    tv_nsec: i64,
}
#[repr(C)]
struct RLimit {
    cur: u64,
    max: u64,
}
unsafe extern "C" {
    fn clock_gettime(clk: i32, ts: *mut Timespec) -> i32;
    fn setrlimit(resource: i32, rlim: *const RLimit) -> i32;
}
/// CPU time of the calling thread in microseconds (CLOCK_THREAD_CPUTIME_ID)
fn cpu_us() -> u64 {
    let mut ts = Timespec { tv_sec: 0, tv_nsec: 0 };
    unsafe { clock_gettime(3, &mut ts) };
    ts.tv_sec as u64 * 1_000_000 + ts.tv_nsec as u64 / 1000
}

// ------------------------------------------------------------------------------------------
// registry plumbing
// ------------------------------------------------------------------------------------------
pub struct Entry {
    pub name: &'static str,
    pub probe: fn(&[u8]) -> Value,
    pub arb: Option<fn(&[u8]) -> Option<(Vec<u8>, &'static str)>>,
    pub run14: fn(&[u8], bool) -> Value,
    pub leaf: bool,
}

fn rs<T, E>(r: &Result<Result<T, E>, String>) -> &'static str {
    match r {
        Err(_) => "panic",
        Ok(Err(_)) => "err",
        Ok(Ok(_)) => "ok",
    }
}

fn post_ops<T: Streamable + PartialEq + Debug>(v: &T, input: &[u8], trusted: bool, out: &mut Map<String, Value>) -> Option<Vec<u8>> {
    let re = catch(AssertUnwindSafe(|| v.to_bytes()));
    out.insert("reenc_r".into(), json!(rs(&re)));
    let mut reenc = None;
    if let Ok(Ok(e)) = re {
        // value -> encode -> decode -> equal
        let back = catch(AssertUnwindSafe(|| if trusted { T::from_bytes_unchecked(&e) } else { T::from_bytes(&e) }));
        let rt = match &back {
            Err(_) => "panic",
            Ok(Err(_)) => "err",
            Ok(Ok(v2)) => match catch(AssertUnwindSafe(|| v2 == v)) {
                Ok(true) => "ok",
                Ok(false) => "neq",
                Err(_) => "panic",
            },
        };
        out.insert("rt".into(), json!(rt));
        // the spec compares the re-encoding with the input through SHA-256 (independent sha2 crate)
        out.insert("reenc_len".into(), json!(e.len()));
        out.insert("reenc_sha".into(), jbytes(&crate::sx::sha256(&[&e])));
        if e != input {
            out.insert("reenc_diag".into(), json!(hex::encode(&e)));
        }
        reenc = Some(e);
    }
    match catch(AssertUnwindSafe(|| v.hash())) {
        Ok(h) => {
            out.insert("hash_r".into(), json!("ok"));
            out.insert("hash".into(), jbytes(&h));
        }
        Err(m) => {
            out.insert("hash_r".into(), json!("panic"));
            out.insert("hash_msg".into(), json!(m.chars().take(120).collect::<String>()));
        }
    }
    reenc
}

/// one byte string through both decoders, and everything a receiver does with the value
pub fn probe_bytes<T: Streamable + PartialEq + Debug>(b: &[u8]) -> Value {
    let u = catch(AssertUnwindSafe(|| T::from_bytes(b)));
    let t = catch(AssertUnwindSafe(|| T::from_bytes_unchecked(b)));
    let mut uj = Map::new();
    uj.insert("r".into(), json!(rs(&u)));
    let mut tj = Map::new();
    tj.insert("r".into(), json!(rs(&t)));
    if let Ok(Ok(v)) = &u {
        post_ops(v, b, false, &mut uj);
    }
    if let Ok(Ok(tv)) = &t {
        post_ops(tv, b, true, &mut tj);
        if let Ok(Ok(v)) = &u {
            let eq = match catch(AssertUnwindSafe(|| tv == v)) {
                Ok(true) => "ok",
                Ok(false) => "neq",
                Err(_) => "panic",
            };
            tj.insert("eq".into(), json!(eq));
        }
    }
    json!({"u": Value::Object(uj), "t": Value::Object(tj)})
}

/// well-formedness of values of the three hand-written versioned codecs (their constructors
/// accept field combinations that have no encoding)
fn pos_well_formed(p: &ProofOfSpace) -> bool {
    match p.version {
        0 => p.plot_index == 0 && p.meta_group == 0 && p.strength == 0,
        1 => p.size == 0 && (p.pool_public_key.is_some() != p.pool_contract_puzzle_hash.is_some()),
        _ => false,
    }
}
fn well_formed<T: 'static>(v: &T) -> bool {
    let a = v as &dyn std::any::Any;
    if let Some(b) = a.downcast_ref::<FullBlock>() {
        return pos_well_formed(&b.reward_chain_block.proof_of_space)
            && match b.version {
                0 => b.transactions_generator_buffer.is_none(),
                1 => b.transactions_generator.is_none() && b.transactions_generator_ref_list.is_empty(),
                _ => false,
            };
    }
    if let Some(b) = a.downcast_ref::<UnfinishedBlock>() {
        return pos_well_formed(&b.reward_chain_block.proof_of_space)
            && match b.version {
                0 => b.transactions_generator_buffer.is_none(),
                1 => b.transactions_generator.is_none() && b.transactions_generator_ref_list.is_empty(),
                _ => false,
            };
    }
    if let Some(p) = a.downcast_ref::<ProofOfSpace>() {
        return pos_well_formed(p);
    }
    true
}

/// value direction: an `arbitrary` value, its encoding, and whether decoding gives it back.
/// result: (encoding, "ok" | "neq" | "err" | "panic" | "encerr" | "illformed")
pub fn arb_event<T: for<'a> Arbitrary<'a> + Streamable + PartialEq + Debug + 'static>(data: &[u8]) -> Option<(Vec<u8>, &'static str)> {
    let mut u = Unstructured::new(data);
    let v = catch(AssertUnwindSafe(|| T::arbitrary(&mut u))).ok()?.ok()?;
    if !well_formed(&v) {
        return Some((vec![], "illformed"));
    }
    let enc = match catch(AssertUnwindSafe(|| v.to_bytes())) {
        Ok(Ok(e)) => e,
        _ => return Some((vec![], "encerr")),
    };
    let r = match catch(AssertUnwindSafe(|| T::from_bytes(&enc))) {
        Err(_) => "panic",
        Ok(Err(_)) => "err",
        Ok(Ok(v2)) => match catch(AssertUnwindSafe(|| v2 == v)) {
            Ok(true) => "ok",
            Ok(false) => "neq",
            Err(_) => "panic",
        },
    };
    Some((enc, r))
}

/// C14: one decode with accounting, then the receiver's operations on the value
pub fn run14<T: Streamable + PartialEq + Debug>(b: &[u8], trusted: bool) -> Value {
    let base = CUR.load(Ordering::Relaxed);
    PEAK.store(base, Ordering::Relaxed);
    let t0 = cpu_us();
    let mut post = Map::new();
    let outcome;
    {
        let r = catch(AssertUnwindSafe(|| if trusted { T::from_bytes_unchecked(b) } else { T::from_bytes(b) }));
        outcome = match &r {
            Err(_) => "panic",
            Ok(Err(_)) => "error",
            Ok(Ok(_)) => "value",
        };
        if let Ok(Ok(v)) = &r {
            let re = catch(AssertUnwindSafe(|| v.to_bytes()));
            post.insert("reencode".into(), json!(rs(&re)));
            post.insert("hash".into(), json!(if catch(AssertUnwindSafe(|| v.hash())).is_ok() { "ok" } else { "panic" }));
            if let Ok(Ok(e)) = &re {
                post.insert("reenc_len".into(), json!(e.len()));
                let eq = match catch(AssertUnwindSafe(|| T::from_bytes_unchecked(e).map(|v2| &v2 == v))) {
                    Err(_) => "panic",
                    Ok(Err(_)) => "err",
                    Ok(Ok(true)) => "ok",
                    Ok(Ok(false)) => "neq",
                };
                post.insert("eq".into(), json!(eq));
            } else {
                post.insert("reenc_len".into(), json!(0));
                post.insert("eq".into(), json!("na"));
            }
        }
    }
    let cpu = cpu_us() - t0;
    let peak = PEAK.load(Ordering::Relaxed).saturating_sub(base);
    json!({"outcome": outcome, "peak_alloc": peak.min(2_000_000_000), "cpu_ms": ((cpu + 999) / 1000).min(2_000_000_000),
           "post": Value::Object(post)})
}

// ------------------------------------------------------------------------------------------
// oracles: raw blst, clvmr, quality strings
// ------------------------------------------------------------------------------------------
fn g1_fact(b: &[u8]) -> (bool, bool) {
    unsafe {
        let mut a = std::mem::MaybeUninit::<blst::blst_p1_affine>::uninit();
        if blst::blst_p1_uncompress(a.as_mut_ptr(), b.as_ptr()) != blst::BLST_ERROR::BLST_SUCCESS {
            return (false, false);
        }
        let a = a.assume_init();
        (true, blst::blst_p1_affine_is_inf(&a) || blst::blst_p1_affine_in_g1(&a))
    }
}
fn g2_fact(b: &[u8]) -> (bool, bool) {
    unsafe {
        let mut a = std::mem::MaybeUninit::<blst::blst_p2_affine>::uninit();
        if blst::blst_p2_uncompress(a.as_mut_ptr(), b.as_ptr()) != blst::BLST_ERROR::BLST_SUCCESS {
            return (false, false);
        }
        let a = a.assume_init();
        (true, blst::blst_p2_affine_is_inf(&a) || blst::blst_p2_affine_in_g2(&a))
    }
}
fn prog_fact(b: &[u8]) -> (u64, u64) {
    let u = catch(AssertUnwindSafe(|| clvmr::serde::serialized_length_from_bytes(b).unwrap_or(0))).unwrap_or(0);
    let t = catch(AssertUnwindSafe(|| clvmr::serde::serialized_length_from_bytes_trusted(b).unwrap_or(0))).unwrap_or(0);
    (u, t)
}

/// quality-string commitments of v2 proofs: the repository's test vectors (independent of the
/// code), else ProofOfSpace::quality_string() (a thin wrapper over the external chia-pos2 crate)
pub struct QsOracle {
    /// everything of the encoding after the challenge (which does not enter the quality) -> quality
    table: Vec<(Vec<u8>, Vec<u8>)>,
    pub vectors: Vec<Vec<u8>>, // full encodings of the vectors
}
const VECTOR_PLOT_PK: &str = "a9c96f979d895b9ded08907ecd775abf889d51219bb7776dd73fdbac6b0dcc063c72c9e10d96776f486bbd1416b54533";

impl QsOracle {
    pub fn load(repo: &str) -> QsOracle {
        let mut q = QsOracle { table: vec![], vectors: vec![] };
        let dir = format!("{repo}/crates/chia-protocol/quality-string-tests");
        let mut names: Vec<_> = std::fs::read_dir(&dir).map(|d| d.filter_map(|e| e.ok()).map(|e| e.path()).collect()).unwrap_or_default();
        names.sort();
        for p in names {
            let Ok(txt) = std::fs::read_to_string(&p) else { continue };
            let l: Vec<&str> = txt.lines().map(|x| x.split('#').next().unwrap_or("").trim()).filter(|x| !x.is_empty()).collect();
            if l.len() != 7 {
                continue;
            }
            let (Ok(ch), Ok(st), Ok(idx), Ok(mg), Ok(pool), Ok(proof), Ok(qual), Ok(ppk)) = (
                hex::decode(l[0]), l[1].parse::<u8>(), l[2].parse::<u16>(), l[3].parse::<u8>(), hex::decode(l[4]), hex::decode(l[5]), hex::decode(l[6]),
                hex::decode(VECTOR_PLOT_PK),
            ) else {
                continue;
            };
            if ch.len() != 32 || qual.len() != 32 {
                continue;
            }
            let mut rest = Vec::new();
            if pool.len() == 48 {
                rest.push(1);
                rest.extend_from_slice(&pool);
                rest.push(2);
            } else {
                rest.push(0);
                rest.push(3);
                rest.extend_from_slice(&pool);
            }
            rest.extend_from_slice(&ppk);
            rest.extend_from_slice(&idx.to_be_bytes());
            rest.push(mg);
            rest.push(st);
            rest.extend_from_slice(&(proof.len() as u32).to_be_bytes());
            rest.extend_from_slice(&proof);
            let mut full = ch.clone();
            full.extend_from_slice(&rest);
            q.table.push((rest, qual));
            q.vectors.push(full);
        }
        q
    }
    /// `enc` = the complete encoding of a (structurally valid, version 2) ProofOfSpace
    fn quality(&self, enc: &[u8]) -> Option<Vec<u8>> {
        if enc.len() > 32 {
            if let Some((_, q)) = self.table.iter().find(|(k, _)| k.as_slice() == &enc[32..]) {
                return Some(q.clone());
            }
        }
        catch(AssertUnwindSafe(|| ProofOfSpace::from_bytes_unchecked(enc).ok().and_then(|p| p.quality_string())))
            .ok()
            .flatten()
            .map(|q| q.to_vec())
    }
}

// ------------------------------------------------------------------------------------------
// schema, grammar walker (marks prefix positions, collects oracle facts)
// ------------------------------------------------------------------------------------------
pub struct Schema {
    types: Map<String, Value>,
    top: Map<String, Value>,
}
impl Schema {
    fn load(path: &str) -> Schema {
        let v: Value = serde_json::from_str(&std::fs::read_to_string(path).expect("read schema")).expect("schema json");
        Schema { types: v["types"].as_object().cloned().unwrap_or_default(), top: v["top"].as_object().cloned().unwrap_or_default() }
    }
    fn resolve<'a>(&'a self, t: &'a Value) -> &'a Value {
        let mut t = t;
        while t["k"] == "ref" {
            t = &self.types[t["name"].as_str().unwrap()];
        }
        t
    }
    /// does a value of this type possibly embed one of the hand-written versioned codecs?
    fn reaches_custom(&self, t: &Value) -> bool {
        match t["k"].as_str().unwrap_or("") {
            "block" | "pos" => true,
            "ref" => self.reaches_custom(self.resolve(t)),
            "opt" | "vec" | "arr" => self.reaches_custom(&t["t"]),
            "opt2" => self.reaches_custom(&t["a"]) || self.reaches_custom(&t["b"]),
            "tup" => t["ts"].as_array().unwrap().iter().any(|x| self.reaches_custom(x)),
            "struct" => t["fs"].as_array().unwrap().iter().any(|x| self.reaches_custom(&x["t"])),
            _ => false,
        }
    }
}

#[derive(Default)]
pub struct Facts {
    g1: BTreeMap<usize, (bool, bool)>,
    g2: BTreeMap<usize, (bool, bool)>,
    prog: BTreeMap<usize, (u64, u64)>,
    qs: BTreeMap<usize, Option<Vec<u8>>>,
}
impl Facts {
    fn to_json(&self) -> Value {
        let pt = |m: &BTreeMap<usize, (bool, bool)>| Value::Array(m.iter().map(|(p, (d, g))| json!([p + 1, *d as u8, *g as u8])).collect());
        json!({
            "g1": pt(&self.g1), "g2": pt(&self.g2),
            "prog": Value::Array(self.prog.iter().map(|(p, (u, t))| json!([p + 1, u, t])).collect()),
            "qs": Value::Array(self.qs.iter().map(|(p, q)| json!([p + 1, jbytes(q.as_deref().unwrap_or(&[]))])).collect()),
        })
    }
}

#[derive(Clone, Copy, PartialEq, Debug)]
pub enum MK {
    Bool,
    Opt,
    Opt2,
    Enum,
    Ver,
    Len,
    Point,
    Prog,
    Str,
}
#[derive(Clone, Copy, Debug)]
pub struct Mark {
    pos: usize,
    kind: MK,
    len: usize,
    depth: usize,
}

pub struct Walker<'a> {
    sch: &'a Schema,
    qs: &'a QsOracle,
    b: &'a [u8],
    tr: bool,
    facts: &'a mut Facts,
    marks: Vec<Mark>,
    vdepth: usize,
    /// byte ranges of the ProofOfSpace encodings met on the way
    pos_spans: Vec<(usize, usize)>,
}

impl<'a> Walker<'a> {
    fn avail(&self, pos: usize, n: usize) -> bool {
        pos.checked_add(n).map(|e| e <= self.b.len()).unwrap_or(false)
    }
    fn mark(&mut self, pos: usize, kind: MK, len: usize) {
        let depth = self.vdepth;
        self.marks.push(Mark { pos, kind, len, depth });
    }
    fn counted(&mut self, pos: usize) -> Option<usize> {
        if !self.avail(pos, 4) {
            return None;
        }
        let n = u32::from_be_bytes(self.b[pos..pos + 4].try_into().unwrap()) as usize;
        self.mark(pos, MK::Len, 4);
        if !self.avail(pos + 4, n) {
            return None;
        }
        Some(pos + 4 + n)
    }
    fn point(&mut self, pos: usize, g2: bool) -> Option<usize> {
        let w = if g2 { 96 } else { 48 };
        if !self.avail(pos, w) {
            return None;
        }
        let s = &self.b[pos..pos + w];
        if g2 {
            if !self.facts.g2.contains_key(&pos) {
                self.facts.g2.insert(pos, g2_fact(s));
            }
        } else if !self.facts.g1.contains_key(&pos) {
            self.facts.g1.insert(pos, g1_fact(s));
        }
        self.mark(pos, MK::Point, w);
        Some(pos + w)
    }
    fn prog(&mut self, pos: usize) -> Option<usize> {
        if pos > self.b.len() {
            return None;
        }
        let f = *self.facts.prog.entry(pos).or_insert_with(|| prog_fact(&self.b[pos..]));
        let n = (if self.tr { f.1 } else { f.0 }) as usize;
        if n == 0 || !self.avail(pos, n) {
            return None;
        }
        self.mark(pos, MK::Prog, n);
        Some(pos + n)
    }
    fn fields(&mut self, ts: &[&Value], mut pos: usize) -> Option<usize> {
        for t in ts {
            pos = self.walk(t, pos)?;
        }
        Some(pos)
    }
    pub fn walk(&mut self, t: &Value, pos: usize) -> Option<usize> {
        let sch = self.sch;
        match t["k"].as_str().unwrap_or("") {
            "u" | "i" | "bytesn" => {
                let n = t["n"].as_u64().unwrap() as usize;
                if self.avail(pos, n) { Some(pos + n) } else { None }
            }
            "bool" => {
                if !self.avail(pos, 1) {
                    return None;
                }
                self.mark(pos, MK::Bool, 1);
                if self.b[pos] > 1 { None } else { Some(pos + 1) }
            }
            "opt" => {
                if !self.avail(pos, 1) {
                    return None;
                }
                self.mark(pos, MK::Opt, 1);
                match self.b[pos] {
                    0 => Some(pos + 1),
                    1 => self.walk(&t["t"], pos + 1),
                    _ => None,
                }
            }
            "opt2" => {
                if !self.avail(pos, 1) {
                    return None;
                }
                self.mark(pos, MK::Opt2, 1);
                let p = self.b[pos];
                if p > 3 {
                    return None;
                }
                let mut q = pos + 1;
                if p & 1 != 0 {
                    q = self.walk(&t["a"], q)?;
                }
                if p & 2 != 0 {
                    q = self.walk(&t["b"], q)?;
                }
                Some(q)
            }
            "vec" => {
                if !self.avail(pos, 4) {
                    return None;
                }
                let n = u32::from_be_bytes(self.b[pos..pos + 4].try_into().unwrap()) as usize;
                self.mark(pos, MK::Len, 4);
                let mut q = pos + 4;
                self.vdepth += 1;
                let mut ok = true;
                for i in 0..n {
                    match self.walk(&t["t"], q) {
                        Some(nq) => {
                            if nq == q && n - i > 4096 {
                                ok = false;
                                break;
                            }
                            q = nq;
                        }
                        None => {
                            ok = false;
                            break;
                        }
                    }
                }
                self.vdepth -= 1;
                if ok { Some(q) } else { None }
            }
            "arr" => {
                let mut q = pos;
                for _ in 0..t["n"].as_u64().unwrap() {
                    q = self.walk(&t["t"], q)?;
                }
                Some(q)
            }
            "tup" => {
                let ts: Vec<&Value> = t["ts"].as_array().unwrap().iter().collect();
                self.fields(&ts, pos)
            }
            "struct" => {
                let ts: Vec<&Value> = t["fs"].as_array().unwrap().iter().map(|f| &f["t"]).collect();
                self.fields(&ts, pos)
            }
            "bytes" => self.counted(pos),
            "str" => {
                let e = self.counted(pos)?;
                if e > pos + 4 {
                    self.mark(pos + 4, MK::Str, e - pos - 4);
                }
                Some(e)
            }
            "enum" => {
                if !self.avail(pos, 1) {
                    return None;
                }
                self.mark(pos, MK::Enum, 1);
                if t["vals"].as_array().unwrap().iter().any(|v| v.as_u64() == Some(self.b[pos] as u64)) { Some(pos + 1) } else { None }
            }
            "g1" => self.point(pos, false),
            "g2" => self.point(pos, true),
            "prog" => self.prog(pos),
            "ref" => self.walk(sch.resolve(t), pos),
            "block" => {
                let ts: Vec<&Value> = t["fs"].as_array().unwrap().iter().map(|f| &f["t"]).collect();
                let q = self.fields(&ts, pos)?;
                if !self.avail(q, 1) {
                    return None;
                }
                self.mark(q, MK::Ver, 1);
                let p = self.b[q];
                match p >> 1 {
                    0 => {
                        let mut r = q + 1;
                        if p & 1 != 0 {
                            r = self.prog(r)?;
                        }
                        self.walk(&json!({"k": "vec", "t": {"k": "u", "n": 4}}), r)
                    }
                    1 => {
                        if p & 1 != 0 { self.counted(q + 1) } else { Some(q + 1) }
                    }
                    _ => None,
                }
            }
            "pos" => {
                let start = pos;
                if !self.avail(pos, 33) {
                    return None;
                }
                let mut q = pos + 32;
                self.mark(q, MK::Opt, 1);
                let has_pk = match self.b[q] {
                    0 => false,
                    1 => true,
                    _ => return None,
                };
                q += 1;
                if has_pk {
                    q = self.point(q, false)?;
                }
                if !self.avail(q, 1) {
                    return None;
                }
                self.mark(q, MK::Ver, 1);
                let p = self.b[q];
                q += 1;
                if p & 1 != 0 {
                    if !self.avail(q, 32) {
                        return None;
                    }
                    q += 32;
                }
                q = self.point(q, false)?;
                match p >> 1 {
                    0 => {
                        if !self.avail(q, 1) {
                            return None;
                        }
                        let e = self.counted(q + 1)?;
                        self.pos_spans.push((start, e));
                        Some(e)
                    }
                    1 => {
                        if !self.avail(q, 4) {
                            return None;
                        }
                        let e = self.counted(q + 4)?;
                        if !self.facts.qs.contains_key(&start) {
                            let qv = self.qs.quality(&self.b[start..e]);
                            self.facts.qs.insert(start, qv);
                        }
                        self.pos_spans.push((start, e));
                        Some(e)
                    }
                    _ => None,
                }
            }
            k => panic!("unknown term kind {k}"),
        }
    }
}

/// oracle facts for both decoders + the prefix marks of the untrusted walk
fn analyse(sch: &Schema, qs: &QsOracle, t: &Value, b: &[u8]) -> (Facts, Vec<Mark>, bool) {
    let mut facts = Facts::default();
    let (marks, ok) = {
        let mut w = Walker { sch, qs, b, tr: false, facts: &mut facts, marks: vec![], vdepth: 0, pos_spans: vec![] };
        let r = w.walk(t, 0);
        (std::mem::take(&mut w.marks), r == Some(b.len()))
    };
    {
        let mut w = Walker { sch, qs, b, tr: true, facts: &mut facts, marks: vec![], vdepth: 0, pos_spans: vec![] };
        w.walk(t, 0);
    }
    (facts, marks, ok)
}

// ------------------------------------------------------------------------------------------
// schema-driven generator of valid encodings
// ------------------------------------------------------------------------------------------
pub struct Pools {
    g1: Vec<Vec<u8>>,
    g2: Vec<Vec<u8>>,
}
impl Pools {
    fn new(r: &mut StdRng) -> Pools {
        let mut g1 = vec![];
        let mut g2 = vec![];
        for _ in 0..6 {
            let ikm = rand_bytes(r, 32);
            let sk = blst::min_pk::SecretKey::key_gen(&ikm, &[]).expect("keygen");
            g1.push(sk.sk_to_pk().compress().to_vec());
            let msg = rand_bytes(r, 8);
            g2.push(sk.sign(&msg, b"BLS_SIG_BLS12381G2_XMD:SHA-256_SSWU_RO_AUG_", &[]).compress().to_vec());
        }
        let mut inf1 = vec![0u8; 48];
        inf1[0] = 0xc0;
        let mut inf2 = vec![0u8; 96];
        inf2[0] = 0xc0;
        g1.push(inf1);
        g2.push(inf2);
        Pools { g1, g2 }
    }
}

#[derive(Clone, Copy)]
pub struct Knobs {
    vec: u8, // 0 random small, 1 empty, 2 many at the outermost vector
    opt: u8, // 0 random, 1 none, 2 some
    budget: usize,
}

pub struct Gen<'a> {
    sch: &'a Schema,
    qs: &'a QsOracle,
    pools: &'a Pools,
    r: &'a mut StdRng,
    k: Knobs,
}

fn gen_prog(r: &mut StdRng, depth: usize, out: &mut Vec<u8>) {
    let c = r.random_range(0..10);
    if depth < 5 && c < 4 {
        out.push(0xff);
        gen_prog(r, depth + 1, out);
        gen_prog(r, depth + 1, out);
    } else if c < 7 {
        out.push(r.random_range(0..=0x80));
    } else if c < 9 {
        let n = r.random_range(1..=40usize);
        out.push(0x80 | n as u8);
        let mut a = rand_bytes(r, n);
        if n == 1 {
            a[0] |= 0x80;
        }
        out.extend_from_slice(&a);
    } else {
        let n = r.random_range(64..=300usize);
        out.push(0xc0 | (n >> 8) as u8);
        out.push((n & 0xff) as u8);
        out.extend_from_slice(&rand_bytes(r, n));
    }
}

fn gen_int(r: &mut StdRng, n: usize, out: &mut Vec<u8>) {
    match r.random_range(0..6) {
        0 => out.extend(std::iter::repeat_n(0u8, n)),
        1 => out.extend(std::iter::repeat_n(0xffu8, n)),
        2 => {
            out.extend(std::iter::repeat_n(0u8, n - 1));
            out.push(r.random_range(0..4));
        }
        3 => {
            out.push(0x80);
            out.extend(std::iter::repeat_n(0u8, n - 1));
        }
        _ => out.extend_from_slice(&rand_bytes(r, n)),
    }
}

impl<'a> Gen<'a> {
    fn vec_len(&mut self, depth: usize, out_len: usize) -> usize {
        if out_len > self.k.budget {
            return 0;
        }
        match self.k.vec {
            1 => 0,
            2 if depth == 0 => self.r.random_range(20..=48),
            3 => {
                if depth == 0 { 4000 } else { 0 }
            }
            _ => {
                if depth < 2 { self.r.random_range(0..=3) } else { self.r.random_range(0..=1) }
            }
        }
    }
    fn opt(&mut self, out_len: usize) -> bool {
        match self.k.opt {
            1 => false,
            2 => out_len <= self.k.budget * 2,
            _ => out_len <= self.k.budget && self.r.random::<bool>(),
        }
    }
    fn counted(&mut self, out: &mut Vec<u8>, data: &[u8]) {
        out.extend_from_slice(&(data.len() as u32).to_be_bytes());
        out.extend_from_slice(data);
    }
    fn blob(&mut self) -> Vec<u8> {
        let n = match self.k.vec {
            1 | 3 => 0,
            2 => self.r.random_range(100..=400),
            _ => self.r.random_range(0..=24),
        };
        rand_bytes(self.r, n)
    }
    fn string(&mut self) -> Vec<u8> {
        let n = if self.k.vec == 1 { 0 } else { self.r.random_range(0..=12) };
        let mut s = String::new();
        for _ in 0..n {
            let c = match self.r.random_range(0..4) {
                0 => self.r.random_range(0x20u32..0x7f),
                1 => self.r.random_range(0x80u32..0x800),
                2 => self.r.random_range(0x800u32..0xd800),
                _ => self.r.random_range(0x10000u32..0x110000),
            };
            s.push(char::from_u32(c).unwrap_or('x'));
        }
        s.into_bytes()
    }
    pub fn gen_term(&mut self, t: &Value, depth: usize, out: &mut Vec<u8>) {
        let sch = self.sch;
        match t["k"].as_str().unwrap_or("") {
            "u" | "i" => gen_int(self.r, t["n"].as_u64().unwrap() as usize, out),
            "bytesn" => {
                let n = t["n"].as_u64().unwrap() as usize;
                let v = rand_bytes(self.r, n);
                out.extend_from_slice(&v);
            }
            "bool" => out.push(self.r.random_range(0..=1)),
            "opt" => {
                if self.opt(out.len()) {
                    out.push(1);
                    self.gen_term(&t["t"], depth, out);
                } else {
                    out.push(0);
                }
            }
            "opt2" => {
                let a = self.opt(out.len());
                let b = self.opt(out.len());
                out.push(a as u8 + 2 * b as u8);
                if a {
                    self.gen_term(&t["a"], depth, out);
                }
                if b {
                    self.gen_term(&t["b"], depth, out);
                }
            }
            "vec" if self.k.vec == 3 && depth == 0 => {
                // as many minimal elements as fit into ~200 KB (at most 4000)
                let mut tmp = vec![];
                let mut n = 0u32;
                while n < 4000 && tmp.len() < 200_000 {
                    self.gen_term(&t["t"], depth + 1, &mut tmp);
                    n += 1;
                }
                out.extend_from_slice(&n.to_be_bytes());
                out.extend_from_slice(&tmp);
            }
            "vec" => {
                let n = self.vec_len(depth, out.len());
                out.extend_from_slice(&(n as u32).to_be_bytes());
                for _ in 0..n {
                    self.gen_term(&t["t"], depth + 1, out);
                }
            }
            "arr" => {
                for _ in 0..t["n"].as_u64().unwrap() {
                    self.gen_term(&t["t"], depth, out);
                }
            }
            "tup" => {
                for x in t["ts"].as_array().unwrap() {
                    self.gen_term(x, depth, out);
                }
            }
            "struct" => {
                for f in t["fs"].as_array().unwrap() {
                    self.gen_term(&f["t"], depth, out);
                }
            }
            "bytes" => {
                let d = self.blob();
                self.counted(out, &d);
            }
            "str" => {
                let d = self.string();
                self.counted(out, &d);
            }
            "enum" => {
                let vals = t["vals"].as_array().unwrap();
                out.push(vals[self.r.random_range(0..vals.len())].as_u64().unwrap() as u8);
            }
            "g1" => {
                let i = self.r.random_range(0..self.pools.g1.len());
                out.extend_from_slice(&self.pools.g1[i]);
            }
            "g2" => {
                let i = self.r.random_range(0..self.pools.g2.len());
                out.extend_from_slice(&self.pools.g2[i]);
            }
            "prog" => gen_prog(self.r, 0, out),
            "ref" => self.gen_term(sch.resolve(t), depth, out),
            "block" => {
                for f in t["fs"].as_array().unwrap() {
                    self.gen_term(&f["t"], depth, out);
                }
                let has = self.opt(out.len()) || self.r.random_range(0..3) == 0;
                if self.r.random::<bool>() {
                    out.push(has as u8);
                    if has {
                        gen_prog(self.r, 0, out);
                    }
                    let n = self.vec_len(depth, out.len());
                    out.extend_from_slice(&(n as u32).to_be_bytes());
                    for _ in 0..n {
                        gen_int(self.r, 4, out);
                    }
                } else {
                    out.push(2 + has as u8);
                    if has {
                        let d = self.blob();
                        self.counted(out, &d);
                    }
                }
            }
            "pos" => {
                let c = self.r.random_range(0..10);
                if c < 2 && !self.qs.vectors.is_empty() {
                    // a real v2 proof from the repository's test vectors (challenge is free)
                    let i = self.r.random_range(0..self.qs.vectors.len());
                    let v = &self.qs.vectors[i];
                    let ch = rand_bytes(self.r, 32);
                    out.extend_from_slice(&ch);
                    out.extend_from_slice(&v[32..]);
                    return;
                }
                let v2 = c < 5;
                let ch = rand_bytes(self.r, 32);
                out.extend_from_slice(&ch);
                let (pk, cph) = if v2 {
                    let b = self.r.random::<bool>();
                    (b, !b)
                } else {
                    (self.r.random::<bool>(), self.r.random::<bool>())
                };
                out.push(pk as u8);
                if pk {
                    self.gen_term(&json!({"k": "g1"}), depth, out);
                }
                out.push(2 * v2 as u8 + cph as u8);
                if cph {
                    let h = rand_bytes(self.r, 32);
                    out.extend_from_slice(&h);
                }
                self.gen_term(&json!({"k": "g1"}), depth, out);
                if v2 {
                    gen_int(self.r, 2, out);
                    gen_int(self.r, 1, out);
                    out.push(self.r.random_range(0..8));
                } else {
                    out.push(self.r.random_range(0..64));
                }
                let d = self.blob();
                self.counted(out, &d);
            }
            k => panic!("unknown term kind {k}"),
        }
    }
}

// ------------------------------------------------------------------------------------------
// perturbations of an encoding at its marks
// ------------------------------------------------------------------------------------------
fn with_byte(b: &[u8], pos: usize, v: u8) -> Vec<u8> {
    let mut o = b.to_vec();
    o[pos] = v;
    o
}

/// every single-position perturbation of one mark (C13 flavour: a few values per position)
fn perturb_mark(b: &[u8], m: &Mark, r: &mut StdRng, out: &mut Vec<(Vec<u8>, &'static str)>) {
    let o = b[m.pos];
    match m.kind {
        MK::Bool | MK::Opt => {
            for v in [0u8, 1, 2, 3, 128, 255] {
                if v != o {
                    out.push((with_byte(b, m.pos, v), if m.kind == MK::Bool { "bool" } else { "opt" }));
                }
            }
        }
        MK::Opt2 | MK::Ver => {
            for v in [0u8, 1, 2, 3, 4, 5, 6, 7, 128, 255] {
                if v != o {
                    out.push((with_byte(b, m.pos, v), if m.kind == MK::Ver { "ver" } else { "opt2" }));
                }
            }
        }
        MK::Enum => {
            for v in [0u8, o.wrapping_add(1), o.wrapping_sub(1), 255, r.random::<u8>()] {
                if v != o {
                    out.push((with_byte(b, m.pos, v), "enum"));
                }
            }
        }
        MK::Len => {
            for i in 0..4 {
                let ob = b[m.pos + i];
                for v in [ob.wrapping_add(1), ob.wrapping_sub(1), 255, 0] {
                    if v != ob {
                        out.push((with_byte(b, m.pos + i, v), "len"));
                    }
                }
            }
        }
        MK::Point => {
            for x in [0x20u8, 0x40, 0x80] {
                out.push((with_byte(b, m.pos, o ^ x), "point"));
            }
            // non-canonical infinity encodings and a zero x coordinate
            let mut z = b.to_vec();
            for i in 0..m.len {
                z[m.pos + i] = 0;
            }
            for first in [0xc0u8, 0xe0, 0x80, 0xa0, 0x40, 0x00] {
                let mut y = z.clone();
                y[m.pos] = first;
                if y != b {
                    out.push((y, "point"));
                }
            }
            let mut y = z.clone();
            y[m.pos] = 0xc0;
            y[m.pos + m.len - 1] = 1;
            out.push((y, "point"));
            out.push((with_byte(b, m.pos + m.len - 1, b[m.pos + m.len - 1] ^ 1), "point"));
        }
        MK::Str => {
            // ill-formed UTF-8: stray continuation / invalid lead bytes, surrogate, overlong, > U+10FFFF
            for v in [0xffu8, 0x80, 0xc0, 0xc1, 0xf5] {
                out.push((with_byte(b, m.pos, v), "str"));
            }
            for seq in [&[0xedu8, 0xa0, 0x80][..], &[0xe0, 0x80, 0x80], &[0xf4, 0x90, 0x80, 0x80], &[0xf0, 0x80, 0x80, 0x80], &[0xc3, 0x28], &[0xe2, 0x82]] {
                if m.len >= seq.len() {
                    let mut x = b.to_vec();
                    let at = m.pos + m.len - seq.len();
                    x[at..at + seq.len()].copy_from_slice(seq);
                    out.push((x, "str"));
                }
            }
        }
        MK::Prog => {
            for v in [0xfeu8, 0xff, 0x80, 0x00, 0xc0, 0xfd] {
                if v != o {
                    out.push((with_byte(b, m.pos, v), "prog"));
                }
            }
            // programs with a dangling back-reference (path into nil): well delimited, so only the
            // validating length computation of the untrusted decoder refuses them; and a valid one
            for p in [&[0xfeu8, 0x02][..], &[0xff, 0xfe, 0x02, 0x80], &[0xff, 0x01, 0xfe, 0x08], &[0xff, 0x01, 0xfe, 0x02]] {
                let mut x = b[..m.pos].to_vec();
                x.extend_from_slice(p);
                x.extend_from_slice(&b[m.pos + m.len..]);
                out.push((x, "prog"));
            }
        }
    }
}

fn trunc_ext(b: &[u8], out: &mut Vec<(Vec<u8>, &'static str)>) {
    if !b.is_empty() {
        out.push((b[..b.len() - 1].to_vec(), "trunc"));
    }
    for x in [0u8, 1, 255] {
        let mut e = b.to_vec();
        e.push(x);
        out.push((e, "ext"));
    }
}

fn bitflips(b: &[u8], n: usize, r: &mut StdRng, out: &mut Vec<(Vec<u8>, &'static str)>) {
    if b.is_empty() {
        return;
    }
    for _ in 0..n {
        let p = r.random_range(0..b.len());
        out.push((with_byte(b, p, b[p] ^ (1 << r.random_range(0..8))), "flip"));
    }
}

// ------------------------------------------------------------------------------------------
// modes
// ------------------------------------------------------------------------------------------
struct Ctx {
    sch: Schema,
    qs: QsOracle,
    reg: Vec<Entry>,
}

fn load_ctx(args: &Args) -> Ctx {
    Ctx { sch: Schema::load(args.req("schema")), qs: QsOracle::load(args.get("repo").unwrap_or("/repo")), reg: crate::streamable_types::registry() }
}

fn c13_event(cx: &Ctx, e: &Entry, b: &[u8], src: &str, vrt: &str) -> Value {
    let mut ev = (e.probe)(b);
    let term = cx.sch.top.get(e.name);
    let o = ev.as_object_mut().unwrap();
    o.insert("k".into(), json!("ev"));
    o.insert("type".into(), json!(e.name));
    o.insert("src".into(), json!(src));
    o.insert("vrt".into(), json!(vrt));
    o.insert("m".into(), json!(term.is_some()));
    o.insert("leaf".into(), json!(e.leaf));
    o.insert("bytes".into(), jbytes(b));
    let facts = match term {
        Some(t) => analyse(&cx.sch, &cx.qs, t, b).0,
        None => Facts::default(),
    };
    o.insert("orc".into(), facts.to_json());
    ev
}

fn pick<T>(v: &mut Vec<T>, n: usize, r: &mut StdRng) {
    // keep a random subset of n elements (order preserved is irrelevant)
    while v.len() > n {
        let i = r.random_range(0..v.len());
        v.swap_remove(i);
    }
}

fn segs_to_bytes(segs: &Value, pools: &Pools, r: &mut StdRng) -> Vec<u8> {
    let mut out = vec![];
    for s in segs.as_array().unwrap() {
        match s["s"].as_str().unwrap_or("") {
            "fill" => out.extend_from_slice(&rand_bytes(r, s["n"].as_u64().unwrap() as usize)),
            "lit" => out.extend_from_slice(&from_jbytes(&s["b"])),
            "g1" => out.extend_from_slice(&pools.g1[r.random_range(0..pools.g1.len())]),
            "g2" => out.extend_from_slice(&pools.g2[r.random_range(0..pools.g2.len())]),
            _ => {}
        }
    }
    out
}

fn arb_data(r: &mut StdRng) -> Vec<u8> {
    // unstructured input: random bytes, sometimes mostly zero (small collections), various lengths
    let n = [0usize, 8, 40, 200, 1000, 4000][r.random_range(0..6)];
    let mut d = rand_bytes(r, n);
    if r.random_range(0..3) == 0 {
        for x in d.iter_mut() {
            if r.random_range(0..4) != 0 {
                *x = 0;
            }
        }
    }
    d
}

fn record_c13(args: &Args) {
    let cx = load_ctx(args);
    let seed = args.u64("seed", 1);
    let mut r = rng(seed);
    let pools = Pools::new(&mut r);
    let mut out = Out::create(args.req("out"));
    let n_arb = args.u64("arb", 1) as usize;
    let n_gen = args.u64("gen", 0) as usize;
    let max_pert = args.u64("pert", 14) as usize;
    let flips = args.u64("flips", 2) as usize;
    // per type: at most this many encoded bytes over all events (keeps the trace size bounded)
    let type_budget = args.u64("type-bytes", 40_000) as usize;
    let gen_budget = args.u64("gen-bytes", 1200) as usize;
    let arb_max = args.u64("arb-bytes", 1000) as usize;
    let only: Option<Vec<&str>> = args.get("types").map(|s| s.split('|').collect());
    let mut stats: BTreeMap<String, u64> = BTreeMap::new();
    let mut bump = |k: &str| *stats.entry(k.to_string()).or_insert(0) += 1;
    let case_sample = args.u64("case-sample", 1).max(1);

    // R: cases generated by TLC (MC_Streamable, mode gen)
    if let Some(cases) = args.get("cases") {
        let f = std::io::BufReader::new(std::fs::File::open(cases).expect("open cases"));
        let mut idx: u64 = 0;
        for line in f.lines() {
            let line = line.expect("read");
            if line.trim().is_empty() {
                continue;
            }
            idx += 1;
            // only the exhaustive byte-string cases are sampled; codec shapes are always replayed
            let c: Value = serde_json::from_str(&line).expect("json");
            if c["k"] == "bytes" && (idx + seed) % case_sample != 0 {
                continue;
            }
            match c["k"].as_str().unwrap_or("") {
                "bytes" => {
                    let name = c["type"].as_str().unwrap();
                    let Some(e) = cx.reg.iter().find(|e| e.name == name) else { panic!("TLC case for unknown type {name}") };
                    out.emit(&c13_event(&cx, e, &from_jbytes(&c["bytes"]), "tlc", "na"));
                    bump("tlc");
                }
                "tail" => {
                    for name in ["FullBlock", "UnfinishedBlock"] {
                        let Some(e) = cx.reg.iter().find(|e| e.name == name) else { continue };
                        let Some(t) = cx.sch.top.get(name) else { continue };
                        let t = cx.sch.resolve(t);
                        let mut b = vec![];
                        {
                            let mut g = Gen { sch: &cx.sch, qs: &cx.qs, pools: &pools, r: &mut r, k: Knobs { vec: 1, opt: 1, budget: 3000 } };
                            for f in t["fs"].as_array().unwrap() {
                                g.gen_term(&f["t"], 0, &mut b);
                            }
                        }
                        b.extend_from_slice(&from_jbytes(&c["tail"]));
                        out.emit(&c13_event(&cx, e, &b, "tlc", "na"));
                        bump("tlc-tail");
                    }
                }
                "segs" => {
                    let name = c["type"].as_str().unwrap();
                    let Some(e) = cx.reg.iter().find(|e| e.name == name) else { panic!("TLC case for unknown type {name}") };
                    let b = segs_to_bytes(&c["segs"], &pools, &mut r);
                    out.emit(&c13_event(&cx, e, &b, "tlc", "na"));
                    bump("tlc-segs");
                }
                _ => {}
            }
        }
    }

    for e in &cx.reg {
        if let Some(o) = &only {
            if !o.contains(&e.name) {
                continue;
            }
        }
        let term = cx.sch.top.get(e.name);
        let custom = term.map(|t| cx.sch.reaches_custom(t)).unwrap_or(true);
        let is_custom_top = matches!(e.name, "FullBlock" | "UnfinishedBlock" | "ProofOfSpace");
        let mut values: Vec<(Vec<u8>, String, String)> = vec![];
        // values from `arbitrary`
        if let Some(arb) = e.arb {
            let mut got = 0;
            let mut tries = 0;
            while got < n_arb && tries < 400 {
                tries += 1;
                let mut d = arb_data(&mut r);
                d.truncate(arb_max);
                let Some((enc, vrt)) = arb(&d) else { continue };
                let vrt = match vrt {
                    "illformed" => continue,
                    // a container of a versioned codec may hold an ill-formed inner value: not a well-formed value
                    "encerr" | "neq" | "err" if custom && !is_custom_top => continue,
                    x => x,
                };
                got += 1;
                values.push((enc, "arb".into(), vrt.into()));
            }
        }
        // values from the schema: random, all-None/empty, all-Some, many elements
        if let Some(t) = term {
            let knobs = [
                Knobs { vec: 1, opt: 1, budget: gen_budget },
                Knobs { vec: 0, opt: 2, budget: gen_budget },
                Knobs { vec: 0, opt: 0, budget: gen_budget },
                Knobs { vec: 2, opt: 0, budget: 2 * gen_budget },
            ];
            for i in 0..(4 + n_gen) {
                let k = knobs[i.min(3) ^ (if i >= 4 { i & 1 } else { 0 })];
                let mut b = vec![];
                Gen { sch: &cx.sch, qs: &cx.qs, pools: &pools, r: &mut r, k }.gen_term(t, 0, &mut b);
                values.push((b, format!("gen{}", i.min(3)), "na".into()));
            }
        } else {
            // unmodelled leaf codecs: hand-made byte strings of the right sizes
            for n in [32usize, 576] {
                values.push((rand_bytes(&mut r, n), "hand".into(), "na".into()));
                values.push((vec![0u8; n], "hand".into(), "na".into()));
                let mut v = vec![0u8; n];
                v[n - 1] = 1;
                values.push((v, "hand".into(), "na".into()));
                values.push((vec![0xffu8; n], "hand".into(), "na".into()));
            }
            // the BLS group order and its neighbours (SecretKey)
            let ord = hex::decode("73eda753299d7d483339d80809a1d80553bda402fffe5bfeffffffff00000001").unwrap();
            let mut lo = ord.clone();
            lo[31] = 0;
            values.push((ord, "hand".into(), "na".into()));
            values.push((lo, "hand".into(), "na".into()));
        }
        let mut seen = std::collections::HashSet::new();
        let mut spent = 0usize;
        for (b, src, vrt) in values {
            if !seen.insert(b.clone()) && src != "arb" {
                continue;
            }
            if spent > type_budget {
                break;
            }
            spent += b.len() + 50;
            out.emit(&c13_event(&cx, e, &b, &src, &vrt));
            bump(&src[..3.min(src.len())]);
            // perturbations
            let mut muts: Vec<(Vec<u8>, &'static str)> = vec![];
            if let Some(t) = term {
                let (_, marks, ok) = analyse(&cx.sch, &cx.qs, t, &b);
                if ok {
                    for m in &marks {
                        perturb_mark(&b, m, &mut r, &mut muts);
                    }
                }
            }
            // stratified sample: random order, then one of each perturbation kind in turn
            for i in (1..muts.len()).rev() {
                let j = r.random_range(0..=i);
                muts.swap(i, j);
            }
            let mut rank: BTreeMap<&'static str, usize> = BTreeMap::new();
            let mut keyed: Vec<(usize, (Vec<u8>, &'static str))> = muts
                .into_iter()
                .map(|m| {
                    let k = rank.entry(m.1).or_insert(0);
                    *k += 1;
                    (*k, m)
                })
                .collect();
            keyed.sort_by_key(|x| x.0);
            keyed.truncate(max_pert);
            let mut muts: Vec<(Vec<u8>, &'static str)> = keyed.into_iter().map(|x| x.1).collect();
            trunc_ext(&b, &mut muts);
            bitflips(&b, flips, &mut r, &mut muts);
            // random order, so that the byte budget cuts an unbiased subset
            for i in (1..muts.len()).rev() {
                let j = r.random_range(0..=i);
                muts.swap(i, j);
            }
            for (mb, kind) in muts {
                if spent > type_budget {
                    break;
                }
                if seen.insert(mb.clone()) {
                    spent += mb.len() + 50;
                    out.emit(&c13_event(&cx, e, &mb, kind, "na"));
                    bump(kind);
                }
            }
        }
    }
    let n = out.finish();
    println!("{}", json!({"events": n, "by_source": stats, "types": cx.reg.len(), "modelled": cx.reg.iter().filter(|e| cx.sch.top.contains_key(e.name)).count(),
                          "qs_vectors": cx.qs.vectors.len()}));
}

// ---- C14 ---------------------------------------------------------------------------------
/// a container whose hash() panics: is it an embedded ProofOfSpace that panics on its own?
fn hash_culprit(cx: &Ctx, e: &Entry, b: &[u8], trusted: bool) -> &'static str {
    let Some(t) = cx.sch.top.get(e.name) else { return "" };
    let mut facts = Facts::default();
    let mut w = Walker { sch: &cx.sch, qs: &cx.qs, b, tr: trusted, facts: &mut facts, marks: vec![], vdepth: 0, pos_spans: vec![] };
    w.walk(t, 0);
    for (lo, hi) in w.pos_spans.clone() {
        let r = catch(AssertUnwindSafe(|| ProofOfSpace::from_bytes_unchecked(&b[lo..hi]).map(|p| p.hash())));
        if r.is_err() {
            // the recorded finding is exactly: a version-2 proof whose proof bytes have no quality string
            let v2_no_qs = catch(AssertUnwindSafe(|| ProofOfSpace::from_bytes_unchecked(&b[lo..hi]).map(|p| p.version == 1 && p.quality_string().is_none()).unwrap_or(false)));
            return if matches!(v2_no_qs, Ok(true)) { "ProofOfSpace(v2,no-quality-string)" } else { "ProofOfSpace" };
        }
    }
    ""
}

struct Case14 {
    ty: usize,
    trusted: bool,
    must_reject: bool,
    class: &'static str,
    bytes: Vec<u8>,
}

fn deep_prog(depth: usize, shape: u8) -> Vec<u8> {
    let mut v = Vec::with_capacity(2 * depth + 2);
    match shape {
        0 => {
            // right-nested list: (1 1 1 ... )
            for _ in 0..depth {
                v.push(0xff);
                v.push(0x01);
            }
            v.push(0x80);
        }
        1 => {
            // left-nested: ((((... . 1) . 1) . 1)
            v.extend(std::iter::repeat_n(0xffu8, depth));
            v.push(0x80);
            v.extend(std::iter::repeat_n(0x01u8, depth));
        }
        _ => {
            // truncated: only pair markers
            v.extend(std::iter::repeat_n(0xffu8, depth));
        }
    }
    v
}

fn gen_cases14(cx: &Ctx, args: &Args, r: &mut StdRng) -> Vec<Case14> {
    let pools = Pools::new(r);
    let thorough = args.get("tier") == Some("thorough");
    // thorough: version / enum / shared-option bytes over all of 0..255, bool / option bytes over 64 + the fixed values
    let per_mark_vals: usize = if thorough { 64 } else { 6 };
    let max_marks: usize = args.u64("marks", if thorough { 24 } else { 6 }) as usize;
    let n_rand: usize = args.u64("random", if thorough { 40 } else { 8 }) as usize;
    let max_deep: usize = args.u64("max-depth", 100_000) as usize;
    let only: Option<Vec<&str>> = args.get("types").map(|s| s.split('|').collect());
    let mut cases = vec![];
    for (ti, e) in cx.reg.iter().enumerate() {
        if let Some(o) = &only {
            if !o.contains(&e.name) {
                continue;
            }
        }
        let mut push = |bytes: Vec<u8>, class: &'static str, must_reject: bool, cases: &mut Vec<Case14>| {
            for trusted in [false, true] {
                cases.push(Case14 { ty: ti, trusted, must_reject, class, bytes: bytes.clone() });
            }
        };
        // random bytes
        for i in 0..n_rand {
            let n = [0usize, 1, 4, 5, 33, 100, 600, 3000][i % 8];
            push(rand_bytes(r, n), "random", false, &mut cases);
        }
        let Some(t) = cx.sch.top.get(e.name) else { continue };
        // many minimal elements: the worst ratio of in-memory size to wire size
        {
            let mut b = vec![];
            Gen { sch: &cx.sch, qs: &cx.qs, pools: &pools, r, k: Knobs { vec: 3, opt: 1, budget: 60_000 } }.gen_term(t, 0, &mut b);
            if b.len() > 1000 {
                push(b, "valid-many", false, &mut cases);
            }
        }
        let knobs = [Knobs { vec: 0, opt: 0, budget: 3000 }, Knobs { vec: 0, opt: 2, budget: 3000 }, Knobs { vec: 2, opt: 0, budget: 20000 }, Knobs { vec: 1, opt: 1, budget: 3000 }];
        for (ki, k) in knobs.iter().enumerate() {
            if !thorough && ki == 1 {
                continue;
            }
            let mut b = vec![];
            Gen { sch: &cx.sch, qs: &cx.qs, pools: &pools, r, k: *k }.gen_term(t, 0, &mut b);
            let (_, mut marks, ok) = analyse(&cx.sch, &cx.qs, t, &b);
            if !ok {
                panic!("generator produced an encoding the walker does not accept: {}", e.name);
            }
            push(b.clone(), "valid", false, &mut cases);
            // truncation / extension of a valid encoding must be rejected (PrefixFree + Canon of the model)
            if !b.is_empty() {
                push(b[..b.len() - 1].to_vec(), "trunc", true, &mut cases);
                push(b[..b.len() / 2].to_vec(), "trunc", true, &mut cases);
            }
            let mut x = b.clone();
            x.push(0);
            push(x, "ext", true, &mut cases);
            let mut x = b.clone();
            x.extend_from_slice(&b);
            if !b.is_empty() {
                push(x, "ext", true, &mut cases);
            }
            if ki == 3 && !thorough {
                continue;
            }
            // all length prefixes maximal at once; outermost maximal
            let lens: Vec<Mark> = marks.iter().filter(|m| m.kind == MK::Len).copied().collect();
            if !lens.is_empty() {
                let mut x = b.clone();
                for m in &lens {
                    x[m.pos..m.pos + 4].copy_from_slice(&[0xff; 4]);
                }
                push(x, "len-all-max", false, &mut cases);
                let mut x = b.clone();
                x[lens[0].pos..lens[0].pos + 4].copy_from_slice(&[0xff; 4]);
                push(x, "len-outer-max", false, &mut cases);
                // nested vectors: every vector on the path to the deepest one claims the maximum
                let dmax = lens.iter().map(|m| m.depth).max().unwrap();
                if dmax > 0 {
                    let mut x = b.clone();
                    let mut want = 0;
                    for m in &lens {
                        if m.depth == want {
                            x[m.pos..m.pos + 4].copy_from_slice(&[0xff, 0xff, 0xff, 0xff]);
                            want += 1;
                        }
                    }
                    push(x, "len-nested-max", false, &mut cases);
                }
            }
            pick(&mut marks, max_marks, r);
            for m in &marks {
                match m.kind {
                    MK::Len => {
                        let n = u32::from_be_bytes(b[m.pos..m.pos + 4].try_into().unwrap());
                        for v in [0u32, 1, n.wrapping_add(1), n.wrapping_sub(1), 1 << 16, 1 << 24, 1 << 31, u32::MAX, 0x0020_0000, 0x0100_0001] {
                            if v != n {
                                let mut x = b.clone();
                                x[m.pos..m.pos + 4].copy_from_slice(&v.to_be_bytes());
                                push(x, "len", false, &mut cases);
                            }
                        }
                    }
                    MK::Bool | MK::Opt | MK::Opt2 | MK::Enum | MK::Ver => {
                        let mut vals: Vec<u8> = (0..=255u8).collect();
                        if !(thorough && matches!(m.kind, MK::Ver | MK::Opt2 | MK::Enum)) {
                            pick(&mut vals, per_mark_vals, r);
                        }
                        for v in [0u8, 1, 2, 3, 4, 255] {
                            if !vals.contains(&v) {
                                vals.push(v);
                            }
                        }
                        for v in vals {
                            if v != b[m.pos] {
                                push(with_byte(&b, m.pos, v), "prefix", false, &mut cases);
                            }
                        }
                    }
                    MK::Point | MK::Str => {
                        let mut muts = vec![];
                        perturb_mark(&b, m, r, &mut muts);
                        for (x, _) in muts {
                            push(x, "point", false, &mut cases);
                        }
                    }
                    MK::Prog => {
                        // deep CLVM nesting spliced in place of the program
                        let mut d = 10;
                        while d <= max_deep {
                            if !thorough && (d == 100 || d == 10_000) {
                                d *= 10;
                                continue;
                            }
                            for shape in 0..3u8 {
                                let mut x = b[..m.pos].to_vec();
                                x.extend_from_slice(&deep_prog(d, shape));
                                x.extend_from_slice(&b[m.pos + m.len..]);
                                push(x, "clvm-depth", false, &mut cases);
                            }
                            d *= 10;
                        }
                    }
                }
            }
            let mut muts = vec![];
            bitflips(&b, if thorough { 40 } else { 6 }, r, &mut muts);
            for (x, _) in muts {
                push(x, "flip", false, &mut cases);
            }
        }
    }
    cases
}

fn hex_of(b: &[u8]) -> String {
    hex::encode(b)
}

fn record_c14(args: &Args) {
    let cx = load_ctx(args);
    let seed = args.u64("seed", 1);
    let mut r = rng(seed);
    let cases = if let Some(f) = args.get("replay-cases") {
        // "type trusted(0/1) hex" per line
        std::fs::read_to_string(f)
            .expect("replay cases")
            .lines()
            .filter(|l| !l.trim().is_empty())
            .map(|l| {
                let mut it = l.rsplitn(3, ' ');
                let hx = it.next().unwrap_or("");
                let tr = it.next().unwrap_or("0") == "1";
                let name = it.next().unwrap_or("");
                let ty = cx.reg.iter().position(|e| e.name == name).unwrap_or_else(|| panic!("unknown type {name}"));
                Case14 { ty, trusted: tr, must_reject: false, class: "replay", bytes: hex::decode(hx).expect("hex") }
            })
            .collect()
    } else {
        gen_cases14(&cx, args, &mut r)
    };
    if let Some(i) = args.get("dump-case") {
        let c = &cases[i.parse::<usize>().expect("index")];
        println!("{}", json!({"type": cx.reg[c.ty].name, "trusted": c.trusted, "class": c.class, "hex": hex_of(&c.bytes)}));
        return;
    }
    let wd = args.req("workdir").to_string();
    std::fs::create_dir_all(&wd).expect("workdir");
    let case_file = format!("{wd}/cases14.txt");
    {
        let mut w = std::io::BufWriter::new(std::fs::File::create(&case_file).expect("case file"));
        for c in &cases {
            writeln!(w, "{} {} {}", c.ty, c.trusted as u8, hex_of(&c.bytes)).unwrap();
        }
        w.flush().unwrap();
    }
    let jobs = args.u64("jobs", 6).max(1) as usize;
    let wall_limit = std::time::Duration::from_millis(args.u64("case-wall-ms", 20_000));
    let exe = std::env::current_exe().expect("exe");
    let n = cases.len();
    let chunk = n.div_ceil(jobs).max(1);
    let results: Vec<Vec<(usize, Value)>> = std::thread::scope(|s| {
        let mut hs = vec![];
        for j in 0..jobs {
            let lo = j * chunk;
            let hi = ((j + 1) * chunk).min(n);
            if lo >= hi {
                continue;
            }
            let exe = exe.clone();
            let case_file = case_file.clone();
            let wd = wd.clone();
            let schema = args.req("schema").to_string();
            hs.push(s.spawn(move || run_children(&exe, &case_file, &schema, &wd, j, lo, hi, wall_limit)));
        }
        hs.into_iter().map(|h| h.join().expect("worker")).collect()
    });
    let mut out = Out::create(args.req("out"));
    let mut hexout = std::io::BufWriter::new(std::fs::File::create(format!("{}.hex", args.req("out"))).expect("hex file"));
    let mut by_class: BTreeMap<String, u64> = BTreeMap::new();
    let mut by_outcome: BTreeMap<String, u64> = BTreeMap::new();
    for rs in results {
        for (i, mut v) in rs {
            let c = &cases[i];
            let e = &cx.reg[c.ty];
            let o = v.as_object_mut().unwrap();
            o.insert("k".into(), json!("ev"));
            o.insert("i".into(), json!(i));
            o.insert("type".into(), json!(e.name));
            o.insert("m".into(), json!(cx.sch.top.contains_key(e.name)));
            o.insert("len".into(), json!(c.bytes.len()));
            o.insert("trusted".into(), json!(c.trusted));
            o.insert("must_reject".into(), json!(c.must_reject));
            o.insert("gen".into(), json!(c.class));
            if o["post"]["hash"] == "panic" {
                let culprit = hash_culprit(&cx, e, &c.bytes, c.trusted);
                o.insert("culprit".into(), json!(culprit));
            }
            // small inputs are kept (side file) for the replay file; large ones are regenerated (--dump-case i)
            if c.bytes.len() <= 4096 {
                writeln!(hexout, "{} {}", i, hex_of(&c.bytes)).unwrap();
            }
            *by_class.entry(c.class.to_string()).or_insert(0) += 1;
            *by_outcome.entry(o["outcome"].as_str().unwrap_or("?").to_string()).or_insert(0) += 1;
            out.emit(&v);
        }
    }
    let nn = out.finish();
    hexout.flush().unwrap();
    let _ = std::fs::remove_file(&case_file);
    println!("{}", json!({"events": nn, "by_class": by_class, "by_outcome": by_outcome}));
}

/// run cases lo..hi in child processes; a child that dies or hangs is attributed to the case
/// whose start marker is the last line of its output, then a new child continues after it
#[allow(clippy::too_many_arguments)]
fn run_children(exe: &std::path::Path, case_file: &str, schema: &str, wd: &str, j: usize, lo: usize, hi: usize, wall_limit: std::time::Duration) -> Vec<(usize, Value)> {
    let mut res: Vec<(usize, Value)> = vec![];
    let mut next = lo;
    let mut round = 0;
    while next < hi {
        let outp = format!("{wd}/child-{j}-{round}.out");
        round += 1;
        let mut ch = std::process::Command::new(exe)
            .args(["streamable", "--mode", "child14", "--schema", schema, "--cases", case_file, "--from", &next.to_string(), "--to", &hi.to_string(), "--out", &outp])
            .stdout(std::process::Stdio::null())
            .stderr(std::process::Stdio::null())
            .spawn()
            .expect("spawn child");
        let mut last_size = 0u64;
        let mut last_change = std::time::Instant::now();
        let mut killed = false;
        let status = loop {
            match ch.try_wait().expect("wait") {
                Some(st) => break st,
                None => {
                    let sz = std::fs::metadata(&outp).map(|m| m.len()).unwrap_or(0);
                    if sz != last_size {
                        last_size = sz;
                        last_change = std::time::Instant::now();
                    } else if last_change.elapsed() > wall_limit {
                        let _ = ch.kill();
                        killed = true;
                    }
                    std::thread::sleep(std::time::Duration::from_millis(if last_change.elapsed().as_millis() < 200 { 5 } else { 50 }));
                }
            }
        };
        // collect
        let mut started: Option<usize> = None;
        if let Ok(f) = std::fs::File::open(&outp) {
            for line in std::io::BufReader::new(f).lines().map_while(Result::ok) {
                if let Some(x) = line.strip_prefix("S ") {
                    started = x.trim().parse().ok();
                } else if let Some(x) = line.strip_prefix("E ") {
                    if let (Some(i), Ok(v)) = (started, serde_json::from_str::<Value>(x)) {
                        res.push((i, v));
                        next = i + 1;
                        started = None;
                    }
                }
            }
        }
        let _ = std::fs::remove_file(&outp);
        if let Some(i) = started {
            // the child died (or was killed) inside case i
            let outcome = if killed { "timeout" } else { "abort" };
            use std::os::unix::process::ExitStatusExt;
            res.push((i, json!({"outcome": outcome, "peak_alloc": 0, "cpu_ms": 0, "post": {}, "signal": status.signal().unwrap_or(0), "code": status.code().unwrap_or(-1)})));
            next = i + 1;
        } else if !status.success() && next < hi {
            panic!("C14 child failed outside a case: {status:?}");
        } else if status.success() {
            break;
        }
    }
    res
}

fn child14(args: &Args) {
    // address-space cap: a giant allocation fails (abort, attributed to the case) instead of
    // taking the machine down; CPU cap as a last resort behind the parent's wall-clock watchdog
    unsafe {
        let lim = RLimit { cur: 24 << 30, max: 24 << 30 };
        setrlimit(9, &lim);
        let lim = RLimit { cur: 600, max: 600 };
        setrlimit(0, &lim);
    }
    let reg = crate::streamable_types::registry();
    let from = args.u64("from", 0) as usize;
    let to = args.u64("to", u64::MAX) as usize;
    let f = std::io::BufReader::new(std::fs::File::open(args.req("cases")).expect("cases"));
    let mut out = std::fs::File::create(args.req("out")).expect("out");
    for (i, line) in f.lines().enumerate() {
        if i < from {
            continue;
        }
        if i >= to {
            break;
        }
        let line = line.expect("read");
        let mut it = line.split(' ');
        let ty: usize = it.next().unwrap().parse().unwrap();
        let trusted = it.next().unwrap() == "1";
        let bytes = hex::decode(it.next().unwrap_or("")).expect("hex");
        writeln!(out, "S {i}").unwrap();
        out.flush().unwrap();
        let mut v = (reg[ty].run14)(&bytes, trusted);
        // CPU time is noisy on a loaded (virtualised) machine: a suspicious reading is re-measured
        // and the minimum is kept; a real regression persists
        let mut runs = 1;
        while runs < 4 && bytes.len() <= 65536 && v["cpu_ms"].as_u64().unwrap_or(0) > 300 {
            let w = (reg[ty].run14)(&bytes, trusted);
            runs += 1;
            if w["cpu_ms"].as_u64().unwrap_or(0) < v["cpu_ms"].as_u64().unwrap_or(0) {
                v["cpu_ms"] = w["cpu_ms"].clone();
            }
        }
        v["cpu_runs"] = json!(runs);
        writeln!(out, "E {v}").unwrap();
        out.flush().unwrap();
    }
}

pub fn record(args: &Args) {
    match args.get("mode").unwrap_or("c13") {
        "list" => {
            for e in crate::streamable_types::registry() {
                println!("{}", e.name);
            }
        }
        "c13" => record_c13(args),
        "c14" => record_c14(args),
        "child14" => child14(args),
        m => {
            eprintln!("unknown mode {m}");
            std::process::exit(2);
        }
    }
}
