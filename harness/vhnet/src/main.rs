fn main() {}
