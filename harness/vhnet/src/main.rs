//! X06 harness: drives the real chia_client::Peer against an in-process plain-TCP websocket server.
//! A history = fresh connection + Peer; the script (from TLC or from the seeded generator) says which
//! requests the client issues (in concurrent waves) and what the server sends, in which order. Everything
//! observable is logged; nothing is judged here (Trace_PeerRpc.tla does that).
//!
//! Timing independence: single-threaded tokio runtime; after every batch of server messages the server sends
//! an id-less sentinel event and the runner waits until the Peer has broadcast it (inbound messages are
//! handled in order, so everything before it has been handled); a request whose oneshot was filled has been
//! woken before that point and finishes within the following yields (no I/O involved). Waiting for I/O is
//! bounded by a generous timeout that is reported as a TOOL error, never as an observation.
use chia_client::{Error, Peer, PeerEvent};
use chia_protocol::Bytes32;
use futures_util::{SinkExt, StreamExt};
use serde_json::{Value, json};
use std::io::Write;
use std::sync::Arc;
use std::time::Duration;
use tokio::net::{TcpListener, TcpStream};
use tokio::sync::broadcast;
use tokio::task::JoinHandle;
use tokio_tungstenite::WebSocketStream;
use tungstenite::Message as Ws;

const TYPES: &[(u8, &str)] = &[
    (50, "new_peak_wallet"),
    (54, "request_removals"),
    (55, "respond_removals"),
    (56, "reject_removals_request"),
    (69, "coin_state_update"),
    (75, "respond_children"),
    (76, "request_ses_info"),
    (77, "respond_ses_info"),
    (104, "mempool_items_added"),
    (105, "mempool_items_removed"),
];
fn ty_name(n: u8) -> String {
    TYPES.iter().find(|t| t.0 == n).map(|t| t.1.to_string()).unwrap_or(format!("t{n}"))
}
fn ty_num(s: &str) -> u8 {
    TYPES.iter().find(|t| t.1 == s).map(|t| t.0).unwrap_or_else(|| panic!("unknown type {s}"))
}

/// hand-written wire encoding of a well-formed body of type `ty` carrying `v` (independent of chia-protocol)
fn body(ty: &str, v: u32, good: bool) -> Vec<u8> {
    if !good {
        return vec![1, (v & 0xff) as u8];
    }
    let vb = v.to_be_bytes();
    let mut h32 = vec![0u8; 32];
    h32[..4].copy_from_slice(&vb);
    let mut o = Vec::new();
    match ty {
        "respond_ses_info" => {
            o.extend([0, 0, 0, 0]);
            o.extend([0, 0, 0, 1]);
            o.extend([0, 0, 0, 1]);
            o.extend(vb);
        }
        "respond_removals" => {
            o.extend(vb);
            o.extend([0u8; 32]);
            o.extend([0, 0, 0, 0]);
            o.push(0);
        }
        "reject_removals_request" => {
            o.extend(vb);
            o.extend([0u8; 32]);
        }
        "new_peak_wallet" => {
            o.extend([0u8; 32]);
            o.extend(vb);
            o.extend([0u8; 16]);
            o.extend([0, 0, 0, 0]);
        }
        "coin_state_update" => {
            o.extend(vb);
            o.extend([0, 0, 0, 0]);
            o.extend([0u8; 32]);
            o.extend([0, 0, 0, 0]);
        }
        "mempool_items_added" => {
            o.extend([0, 0, 0, 1]);
            o.extend(&h32);
        }
        "mempool_items_removed" => {
            o.extend([0, 0, 0, 1]);
            o.extend(&h32);
            o.push(1);
        }
        "respond_children" => {
            o.extend([0, 0, 0, 0]);
        }
        _ => panic!("no body for {ty}"),
    }
    o
}
fn encode_msg(ty: u8, id: Option<u16>, data: &[u8]) -> Vec<u8> {
    let mut o = vec![ty];
    match id {
        None => o.push(0),
        Some(i) => {
            o.push(1);
            o.extend(i.to_be_bytes());
        }
    }
    o.extend((data.len() as u32).to_be_bytes());
    o.extend(data);
    o
}
/// (type, id, first u32 of the body) of a client message
fn decode_req(b: &[u8]) -> Option<(u8, Option<u16>, u32)> {
    let ty = *b.first()?;
    let (id, p) = match *b.get(1)? {
        0 => (None, 2),
        1 => (Some(u16::from_be_bytes([*b.get(2)?, *b.get(3)?])), 4),
        _ => return None,
    };
    let d = b.get(p + 4..)?;
    let h = u32::from_be_bytes([*d.first()?, *d.get(1)?, *d.get(2)?, *d.get(3)?]);
    Some((ty, id, h))
}
fn jb(b: &[u8]) -> Value {
    Value::Array(b.iter().map(|x| json!(*x)).collect())
}
fn jid(id: Option<u16>) -> Value {
    match id {
        None => json!([]),
        Some(i) => json!([i]),
    }
}

struct Rng(u64);
impl Rng {
    fn next(&mut self) -> u64 {
        self.0 = self.0.wrapping_add(0x9E3779B97F4A7C15);
        let mut z = self.0;
        z = (z ^ (z >> 30)).wrapping_mul(0xBF58476D1CE4E5B9);
        z = (z ^ (z >> 27)).wrapping_mul(0x94D049BB133111EB);
        z ^ (z >> 31)
    }
    fn below(&mut self, n: u64) -> u64 {
        self.next() % n
    }
}

const REPLY_TYPES: &[&str] = &[
    "respond_ses_info",
    "respond_removals",
    "reject_removals_request",
    "new_peak_wallet",
    "coin_state_update",
    "mempool_items_added",
    "mempool_items_removed",
    "respond_children",
];

fn random_script(r: &mut Rng) -> Value {
    let mut steps = Vec::new();
    let mut nreq = 0u64;
    let waves = 1 + r.below(3);
    let mut v = 1;
    for _ in 0..waves {
        let n = 1 + r.below(3);
        let mut rs = Vec::new();
        for _ in 0..n {
            nreq += 1;
            rs.push(json!({"r": nreq, "kind": if r.below(2) == 0 { "ses" } else { "rem" }}));
        }
        // sometimes talk before the first wave (future ids, events)
        if nreq == n && r.below(3) == 0 {
            steps.push(json!({"k": "reply", "to": {"k": "abs", "id": r.below(3)}, "ty": REPLY_TYPES[r.below(8) as usize], "v": 99, "good": true}));
        }
        steps.push(json!({"k": "wave", "rs": rs}));
        for _ in 0..r.below(7) {
            let to = match r.below(10) {
                0..=5 => json!({"k": "r", "r": 1 + r.below(nreq)}),
                6 | 7 => json!({"k": "none"}),
                _ => json!({"k": "abs", "id": if r.below(4) == 0 { 65535 } else { r.below(9) }}),
            };
            let ty = match r.below(10) {
                0..=2 => "respond_ses_info",
                3..=5 => "respond_removals",
                6 => "reject_removals_request",
                _ => REPLY_TYPES[r.below(8) as usize],
            };
            v += 1;
            steps.push(json!({"k": "reply", "to": to, "ty": ty, "v": v, "good": r.below(6) != 0}));
        }
    }
    if r.below(6) == 0 {
        steps.push(json!({"k": "close"}));
    }
    json!({"steps": steps})
}

type Outcome = Value;
struct Hist {
    server: Option<WebSocketStream<TcpStream>>,
    peer: Arc<Peer>,
    rx: broadcast::Receiver<PeerEvent>,
    tasks: Vec<(u64, JoinHandle<Outcome>)>,
    ids: std::collections::HashMap<u64, u16>,
    nsync: u32,
    dirty: bool,
    closed: bool,
    evbuf: Vec<Value>,
}
const TMO: Duration = Duration::from_secs(30);

fn invalid(m: chia_protocol::Message) -> Value {
    json!({"k": "invalid", "ty": ty_name(m.msg_type as u8), "id": jid(m.id), "data": jb(m.data.as_ref())})
}
fn err_out<R>(e: Error<R>, rej: impl FnOnce(R) -> Value) -> Value {
    match e {
        Error::Chia(e) => json!({"k": "chia", "e": format!("{e:?}")}),
        Error::WebSocket(_) => json!({"k": "ws"}),
        Error::InvalidResponse(m) => invalid(m),
        Error::MissingResponse => json!({"k": "missing"}),
        Error::Rejection(r) => rej(r),
    }
}
async fn do_request(peer: Arc<Peer>, kind: String, h: u32) -> Outcome {
    if kind == "ses" {
        match peer.request_ses_info(h, 0).await {
            Ok(r) => {
                if r.reward_chain_hash.is_empty() && r.heights.len() == 1 && r.heights[0].len() == 1 {
                    json!({"k": "ok", "v": r.heights[0][0]})
                } else {
                    json!({"k": "ok_shape"})
                }
            }
            Err(e) => err_out(e, |()| json!({"k": "rejection_unit"})),
        }
    } else {
        match peer.request_removals(h, Bytes32::default(), None).await {
            Ok(r) => json!({"k": "ok", "v": r.height}),
            Err(e) => err_out(e, |r| json!({"k": "rejection", "v": r.height})),
        }
    }
}
fn ev_json(e: &PeerEvent) -> Value {
    let first4 = |b: &Bytes32| u32::from_be_bytes([b[0], b[1], b[2], b[3]]);
    match e {
        PeerEvent::CoinStateUpdate(x) => json!({"ty": "coin_state_update", "v": x.height}),
        PeerEvent::NewPeakWallet(x) => json!({"ty": "new_peak_wallet", "v": x.height}),
        PeerEvent::MempoolItemsAdded(x) => json!({"ty": "mempool_items_added", "v": x.transaction_ids.first().map(first4).unwrap_or(0)}),
        PeerEvent::MempoolItemsRemoved(x) => json!({"ty": "mempool_items_removed", "v": x.removed_items.first().map(|i| first4(&i.transaction_id)).unwrap_or(0)}),
    }
}

impl Hist {
    async fn open() -> Result<Hist, String> {
        let l = TcpListener::bind("127.0.0.1:0").await.map_err(|e| e.to_string())?;
        let port = l.local_addr().map_err(|e| e.to_string())?.port();
        let acc = tokio::spawn(async move {
            let (s, _) = l.accept().await.map_err(|e| e.to_string())?;
            s.set_nodelay(true).map_err(|e| e.to_string())?;
            tokio_tungstenite::accept_async(s).await.map_err(|e| e.to_string())
        });
        let (ws, _) = tokio::time::timeout(TMO, tokio_tungstenite::connect_async_with_config(format!("ws://127.0.0.1:{port}"), None, true))
            .await
            .map_err(|_| "connect timeout".to_string())?
            .map_err(|e| e.to_string())?;
        let server = tokio::time::timeout(TMO, acc).await.map_err(|_| "accept timeout".to_string())?.map_err(|e| e.to_string())??;
        let peer = Peer::new(ws);
        let rx = peer.receiver().resubscribe();
        Ok(Hist { server: Some(server), peer: Arc::new(peer), rx, tasks: vec![], ids: Default::default(), nsync: 0, dirty: false, closed: false, evbuf: vec![] })
    }
    async fn send_msg(&mut self, id: Option<u16>, ty: &str, v: u32, good: bool, out: &mut Vec<Value>) -> Result<(), String> {
        let data = body(ty, v, good);
        let bytes = encode_msg(ty_num(ty), id, &data);
        out.push(json!({"k": "reply", "m": {"id": jid(id), "ty": ty, "v": v, "good": good, "data": jb(&data)}}));
        self.server.as_mut().ok_or("server gone")?.send(Ws::Binary(bytes.into())).await.map_err(|e| format!("server send: {e}"))?;
        self.dirty = true;
        Ok(())
    }
    /// wait until everything the server has sent so far has been handled by the Peer
    async fn sync(&mut self, out: &mut Vec<Value>) -> Result<(), String> {
        if self.closed || !self.dirty {
            return Ok(());
        }
        self.nsync += 1;
        let sv = 1_000_000 + self.nsync;
        self.send_msg(None, "new_peak_wallet", sv, true, out).await?;
        loop {
            match tokio::time::timeout(TMO, self.rx.recv()).await {
                Err(_) => return Err("timeout waiting for the sentinel event".into()),
                Ok(Err(e)) => return Err(format!("event receiver: {e:?}")),
                Ok(Ok(ev)) => {
                    let j = ev_json(&ev);
                    let stop = j["ty"] == "new_peak_wallet" && j["v"] == sv;
                    self.evbuf.push(j);
                    if stop {
                        break;
                    }
                }
            }
        }
        self.dirty = false;
        Ok(())
    }
    async fn observe(&mut self, out: &mut Vec<Value>) {
        for _ in 0..64 {
            tokio::task::yield_now().await;
        }
        // events that were broadcast but not yet read (none after a sync; after close: the rest)
        while let Ok(ev) = self.rx.try_recv() {
            self.evbuf.push(ev_json(&ev));
        }
        let mut done = Vec::new();
        let mut pend = Vec::new();
        let mut keep = Vec::new();
        for (r, h) in std::mem::take(&mut self.tasks) {
            if h.is_finished() {
                let o = match h.await {
                    Ok(o) => o,
                    Err(e) => json!({"k": "panic", "e": e.to_string()}),
                };
                done.push(json!({"r": r, "out": o}));
            } else {
                pend.push(json!(r));
                keep.push((r, h));
            }
        }
        self.tasks = keep;
        out.push(json!({"k": "obs", "done": done, "pend": pend, "ev": std::mem::take(&mut self.evbuf)}));
    }
    async fn run(&mut self, script: &Value, out: &mut Vec<Value>) -> Result<(), String> {
        for st in script["steps"].as_array().ok_or("no steps")? {
            match st["k"].as_str().unwrap_or("") {
                "wave" => {
                    self.sync(out).await?;
                    self.observe(out).await;
                    let rs = st["rs"].as_array().ok_or("rs")?;
                    let mut reqs = Vec::new();
                    for q in rs {
                        let r = q["r"].as_u64().ok_or("r")?;
                        let kind = q["kind"].as_str().ok_or("kind")?.to_string();
                        let h = 100 + r as u32;
                        reqs.push(json!({"r": r, "kind": kind, "h": h}));
                        self.tasks.push((r, tokio::spawn(do_request(self.peer.clone(), kind, h))));
                    }
                    let mut arr = Vec::new();
                    while arr.len() < rs.len() && !self.closed {
                        match tokio::time::timeout(TMO, self.server.as_mut().ok_or("server gone")?.next()).await {
                            Err(_) => return Err("timeout waiting for the requests on the wire".into()),
                            Ok(None) => return Err("server stream ended".into()),
                            Ok(Some(Err(e))) => return Err(format!("server recv: {e}")),
                            Ok(Some(Ok(Ws::Binary(b)))) => {
                                let (ty, id, h) = decode_req(&b).ok_or("undecodable request")?;
                                let r = (h as u64).wrapping_sub(100);
                                if let Some(i) = id {
                                    self.ids.insert(r, i);
                                }
                                arr.push(json!({"r": r, "id": jid(id), "ty": ty_name(ty), "h": h}));
                            }
                            Ok(Some(Ok(_))) => {}
                        }
                    }
                    out.push(json!({"k": "wave", "reqs": reqs, "arr": arr}));
                }
                "reply" => {
                    if self.closed {
                        continue;
                    }
                    let id = match st["to"]["k"].as_str().unwrap_or("") {
                        "none" => None,
                        "abs" => Some(st["to"]["id"].as_u64().ok_or("id")? as u16),
                        "r" => match self.ids.get(&st["to"]["r"].as_u64().ok_or("to.r")?) {
                            Some(i) => Some(*i),
                            None => continue, // request not issued yet: the step is skipped (nothing is sent, nothing logged)
                        },
                        _ => return Err("bad reply target".into()),
                    };
                    let ty = st["ty"].as_str().ok_or("ty")?;
                    self.send_msg(id, ty, st["v"].as_u64().ok_or("v")? as u32, st["good"].as_bool().ok_or("good")?, out).await?;
                }
                "close" => {
                    if self.closed {
                        continue;
                    }
                    self.sync(out).await?;
                    self.observe(out).await;
                    out.push(json!({"k": "close"}));
                    self.server.as_mut().ok_or("server gone")?.close(None).await.map_err(|e| format!("server close: {e}"))?;
                    // drain the close handshake on the server side
                    loop {
                        match tokio::time::timeout(TMO, self.server.as_mut().ok_or("server gone")?.next()).await {
                            Err(_) => return Err("timeout in the close handshake".into()),
                            Ok(None) | Ok(Some(Err(_))) => break,
                            Ok(Some(Ok(_))) => {}
                        }
                    }
                    // the server side closes the TCP connection (tungstenite: the server closes first)
                    drop(self.server.take());
                    // the Peer's inbound loop has ended when the event sender is gone
                    loop {
                        match tokio::time::timeout(TMO, self.rx.recv()).await {
                            Err(_) => return Err("timeout waiting for the inbound loop to end".into()),
                            Ok(Err(broadcast::error::RecvError::Closed)) => break,
                            Ok(Err(e)) => return Err(format!("event receiver: {e:?}")),
                            Ok(Ok(ev)) => self.evbuf.push(ev_json(&ev)),
                        }
                    }
                    self.closed = true;
                }
                x => return Err(format!("unknown step {x}")),
            }
        }
        self.sync(out).await?;
        self.observe(out).await;
        Ok(())
    }
}

async fn run_all(scripts: Vec<(String, Value)>, path: &str) -> usize {
    let mut f = std::io::BufWriter::new(std::fs::File::create(path).expect("create out"));
    let mut n = 0;
    for (src, sc) in scripts {
        let mut out = vec![json!({"k": "reset", "src": src, "script": sc})];
        let res = match Hist::open().await {
            Ok(mut h) => {
                let r = h.run(&sc, &mut out).await;
                for (_, t) in &h.tasks {
                    t.abort();
                }
                r
            }
            Err(e) => Err(e),
        };
        if let Err(e) = res {
            out.push(json!({"k": "toolerr", "e": e}));
        }
        for o in out {
            writeln!(f, "{o}").unwrap();
            n += 1;
        }
    }
    f.flush().unwrap();
    n
}

fn main() {
    let a: Vec<String> = std::env::args().collect();
    let get = |k: &str| a.iter().position(|x| x == k).and_then(|i| a.get(i + 1)).cloned();
    let out = get("--out").expect("--out");
    let seed: u64 = get("--seed").and_then(|s| s.parse().ok()).unwrap_or(1);
    let n: u64 = get("--n").and_then(|s| s.parse().ok()).unwrap_or(100);
    let mut scripts = Vec::new();
    if let Some(c) = get("--cases") {
        for l in std::fs::read_to_string(&c).expect("cases").lines() {
            if !l.trim().is_empty() {
                scripts.push(("tlc".to_string(), serde_json::from_str::<Value>(l).expect("case json")));
            }
        }
    }
    let mut r = Rng(seed);
    for _ in 0..n {
        scripts.push(("rand".to_string(), random_script(&mut r)));
    }
    let rt = tokio::runtime::Builder::new_current_thread().enable_all().build().expect("runtime");
    let ev = rt.block_on(run_all(scripts, &out));
    println!("{{\"events\":{ev}}}");
}
