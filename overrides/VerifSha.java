import tlc2.overrides.TLAPlusOperator;
import tlc2.value.impl.*;
import java.security.MessageDigest;

// The only overridden operator: Sha!SHA256(bytes) = FIPS 180-4 SHA-256 on a
// TLA+ sequence of 0..255, computed by the JDK.
public class VerifSha {
  @TLAPlusOperator(identifier = "SHA256", module = "Sha", warn = false)
  public static Value sha256(final Value v) throws Exception {
    TupleValue t = (TupleValue) v.toTuple();
    byte[] in = new byte[t.size()];
    for (int i = 0; i < in.length; i++) in[i] = (byte) ((IntValue) t.elems[i]).val;
    byte[] d = MessageDigest.getInstance("SHA-256").digest(in);
    Value[] out = new Value[d.length];
    for (int i = 0; i < d.length; i++) out[i] = IntValue.gen(d[i] & 0xff);
    return new TupleValue(out);
  }
}
