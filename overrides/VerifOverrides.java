import tlc2.overrides.ITLCOverrides;

public class VerifOverrides implements ITLCOverrides {
  @SuppressWarnings("rawtypes")
  public Class[] get() {
    return new Class[] { VerifSha.class };
  }
}
